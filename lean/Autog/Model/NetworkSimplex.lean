import Autog.Model.Core
import Autog.Model.Phase2
/-! Exact model of internal/phase2/network_simplex.go (repaired code): Kahn initialisation, tight-tree growth,
    lim/low numbering, cut values, pivots, normalisation, vertical and horizontal balancing. Recursive Go functions
    are explicit-stack loops with fuel. Core-only. -/

namespace Autog

def slackE (g : G) (e : Nat) : Int :=
  let ed := g.edge e
  g.layerOf ed.dst - g.layerOf ed.src - ed.delta

def setLayer (g : G) (n : Nat) (l : Int) : G := g.modNode n fun nd => { nd with layer := l }

/-- `initLayers` -/
def nsInitLayers (g : G) : M G := do
  let rec go (fuel : Nat) (queue : List Nat) (unseen : Array Int) (g : G) : M G :=
    match fuel with
    | 0 => throw "fuel:phase2.initLayers"
    | fuel + 1 =>
      match queue with
      | [] => pure g
      | n :: rest =>
        let (g, unseen, rest) := (g.node n).outs.foldl (fun (acc : G × Array Int × List Nat) e =>
          let (g, unseen, q) := acc
          let ed := g.edge e
          let m := ed.dst
          let g := setLayer g m (max (g.layerOf m) (g.layerOf n + ed.delta))
          let u := unseen.getD m 0 - 1
          let unseen := unseen.setIfInBounds m u
          (g, unseen, if u == 0 then q ++ [m] else q)) (g, unseen, rest)
        go fuel rest unseen g
  let unseen := g.nodes.map fun nd => (nd.ins.length : Int)
  let sources := g.nodeIds.filter fun n => (g.node n).ins.isEmpty
  go (g.nodes.size + g.edges.size + 2) sources unseen g

/-- one iteration of `for n := range treeNodes { n.Layer += d }` -/
def shiftStep (d : Int) (g : G) (n : Nat) : G := setLayer g n (g.layerOf n + d)

structure TTSt where
  g : G
  visE : List Nat
  visN : List Nat

/-- `tightTree`: explicit stack of (node, incident edges still to visit) -/
def tightTreeRun : Nat → List (Nat × List Nat) → TTSt → M TTSt
  | 0, _, _ => throw "fuel:phase2.tightTree"
  | _ + 1, [], s => pure s
  | fuel + 1, (_, []) :: tl, s => tightTreeRun fuel tl s
  | fuel + 1, (n, e :: es) :: tl, s =>
    if s.visE.contains e then tightTreeRun fuel ((n, es) :: tl) s
    else
      let s := { s with visE := e :: s.visE }
      let m := s.g.other e n
      if (s.g.edge e).tree then
        tightTreeRun fuel ((m, s.g.incident m) :: (n, es) :: tl) { s with visN := m :: s.visN }
      else if !s.visN.contains m && slackE s.g e == 0 then
        let g := s.g.modEdge e fun ed => { ed with tree := true }
        tightTreeRun fuel ((m, g.incident m) :: (n, es) :: tl) { s with g := g, visN := m :: s.visN }
      else tightTreeRun fuel ((n, es) :: tl) s

def nsWalkFuel (g : G) : Nat := (g.edges.size + 2) * (2 * g.edges.size + 2) + 2 * g.nodes.size + 4

def tightTree (g : G) : M (G × List Nat) := do
  let s ← tightTreeRun (nsWalkFuel g) [(0, g.incident 0)] { g, visE := [], visN := [0] }
  pure (s.g, dedup s.visN)

/-- `incidentNonTreeEdge(nodes, treeNodes)` -/
def incidentNonTreeEdge (g : G) (treeNodes : List Nat) : M Nat := do
  let cand := g.nodeIds.foldl (fun (acc : Option (Nat × Int)) n =>
    if !treeNodes.contains n then acc else
    (g.incident n).foldl (fun acc e =>
      if g.selfLoops e then acc
      else if (g.edge e).tree || treeNodes.contains (g.other e n) then acc
      else
        let s := slackE g e
        match acc with
        | none => some (e, s)
        | some (_, ms) => if s < ms then some (e, s) else acc) acc) none
  match cand with
  | some (e, _) => pure e
  | none => throw "panic:network simplex: did not find adjacent non-tree edge with min slack"

structure NS where
  g : G
  lim : Array Int
  low : Array Int

/-- `walkStreeDfs` as a loop: frames (node, incident edges to visit, low, running lim) -/
def walkStree : Nat → List (Nat × List Nat × Int × Int) → List Nat → NS → M NS
  | 0, _, _, _ => throw "fuel:phase2.walkStreeDfs"
  | _ + 1, [], _, s => pure s
  | fuel + 1, (n, [], _, lim) :: tl, vis, s =>
    let s := { s with lim := s.lim.setIfInBounds n lim }
    -- `return lim + 1` into the caller's `lim = …`
    match tl with
    | [] => walkStree fuel [] vis s
    | (p, es, lo, _) :: tl' => walkStree fuel ((p, es, lo, lim + 1) :: tl') vis s
  | fuel + 1, (n, e :: es, lo, lim) :: tl, vis, s =>
    if (s.g.edge e).tree && !vis.contains e then
      let m := s.g.other e n
      let s := { s with low := s.low.setIfInBounds m lim }
      walkStree fuel ((m, s.g.incident m, lim, lim) :: (n, es, lo, lim) :: tl) (e :: vis) s
    else walkStree fuel ((n, es, lo, lim) :: tl) vis s

/-- `setStreeValues(g.Nodes[0])` -/
def setStreeValues (s : NS) : M NS := do
  let n := s.g.nodes.size
  let s := { s with lim := Array.replicate n 0, low := (Array.replicate n 0).setIfInBounds 0 1 }
  walkStree (nsWalkFuel s.g) [(0, s.g.incident 0, 1, 1)] [] s

/-- `inHeadComponent(n, e)` -/
def inHead (s : NS) (n e : Nat) : Bool :=
  let u := (s.g.edge e).src
  let v := (s.g.edge e).dst
  let lim := fun k => s.lim.getD k 0
  let low := fun k => s.low.getD k 0
  if lim u < lim v then !(low u ≤ lim n && lim n ≤ lim u)
  else low v ≤ lim n && lim n ≤ lim v

/-- `setCutValues` -/
def setCutValues (s : NS) : NS :=
  let g := s.g.elist.foldl (fun g e =>
    if !(g.edge e).tree then g else
    let cut := s.g.elist.foldl (fun (c : Int) f =>
      let fd := g.edge f
      if fd.tree then c
      else if !inHead s fd.src e && inHead s fd.dst e then c + fd.weight
      else if inHead s fd.src e && !inHead s fd.dst e then c - fd.weight
      else c) (g.edge e).weight
    g.modEdge e fun ed => { ed with cut := cut }) s.g
  { s with g := g }

/-- `feasibleTree` -/
def feasibleTree (g : G) : M NS := do
  let g ← nsInitLayers g
  let rec rounds (fuel : Nat) (g : G) : M G :=
    match fuel with
    | 0 => throw "fuel:phase2.feasibleTree"
    | fuel + 1 => do
      let g := g.elist.foldl (fun g e => g.modEdge e fun ed => { ed with tree := false }) g
      let (g, treeNodes) ← tightTree g
      if treeNodes.length == g.nodes.size then pure g
      else
        let e ← incidentNonTreeEdge g treeNodes
        let d := if treeNodes.contains (g.edge e).dst then -(slackE g e) else slackE g e
        -- `for n := range treeNodes { n.Layer += d }` : order independent (FoldPermAndRank.shift_order_irrelevant)
        let g := treeNodes.foldl (shiftStep d) g
        rounds fuel g
  let g ← rounds (g.nodes.size + 2) g
  let s ← setStreeValues { g, lim := #[], low := #[] }
  pure (setCutValues s)

def negCutValueTreeEdge (g : G) : Option Nat := g.elist.find? fun e => (g.edge e).tree && (g.edge e).cut < 0

/-- `minSlackNonTreeEdge(edges, e)` -/
def minSlackNonTreeEdge (s : NS) (e : Nat) : Option Nat :=
  (s.g.elist.foldl (fun (acc : Option (Nat × Int)) f =>
    if f == e || (s.g.edge f).tree then acc
    else if inHead s (s.g.edge f).src e && !inHead s (s.g.edge f).dst e then
      let sl := slackE s.g f
      match acc with
      | none => some (f, sl)
      | some (_, ms) => if sl < ms then some (f, sl) else acc
    else acc) none).map (·.1)

/-- `exchange(e, f, g)` -/
def exchange (s : NS) (e f : Nat) : M NS := do
  if !(s.g.edge e).tree then throw "panic:network simplex: exchange: tree-edge not in spanning tree"
  if (s.g.edge f).tree then throw "panic:network simplex: exchange: non-tree-edge already in spanning tree"
  let d := slackE s.g f
  let g := if d > 0 then
      s.g.nodeIds.foldl (fun g n => if !inHead s n e then setLayer g n (g.layerOf n - d) else g) s.g
    else s.g
  let g := g.modEdge e fun ed => { ed with tree := false }
  let g := g.modEdge f fun ed => { ed with tree := true }
  let s ← setStreeValues { s with g := g }
  pure (setCutValues s)

/-- `normalize` -/
def nsNormalize (g : G) : G :=
  match g.nodeIds with
  | [] => g
  | n0 :: rest =>
    let lowest := rest.foldl (fun m n => min m (g.layerOf n)) (g.layerOf n0)
    if lowest == 0 then g else g.nodeIds.foldl (fun g n => setLayer g n (g.layerOf n - lowest)) g

def lsCount (ls : List (Int × Int)) (l : Int) : Int := lookupD 0 ls l
def lsBump (ls : List (Int × Int)) (l : Int) (d : Int) : List (Int × Int) :=
  if ls.any (·.1 == l) then ls.map fun (k, c) => if k == l then (k, c + d) else (k, c) else ls ++ [(l, d)]

/-- one node of `vbalance`: a node with as many in- as out-edges moves to the least crowded layer of its feasible range -/
def vbalanceStep (lmax : Int) (acc : G × List (Int × Int)) (n : Nat) : G × List (Int × Int) :=
  let (g, lsize) := acc
  let nd := g.node n
  if nd.ins.length != nd.outs.length then acc else
  let low := nd.ins.foldl (fun m e => max m (g.layerOf (g.edge e).src + (g.edge e).delta)) 0
  let high := nd.outs.foldl (fun m e => min m (g.layerOf (g.edge e).dst - (g.edge e).delta)) lmax
  let newl := (List.range (high - low).toNat).foldl (fun (nl : Int) (k : Nat) =>
    let i := low + 1 + (k : Int)
    if lsCount lsize i < lsCount lsize nl then i else nl) low
  if lsCount lsize newl < lsCount lsize nd.layer then
    (setLayer g n newl, lsBump (lsBump lsize nd.layer (-1)) newl 1)
  else acc

/-- `vbalance` -/
def vbalance (g : G) : G :=
  let lmax := g.nodeIds.foldl (fun m n => max m (g.layerOf n)) 0
  let lsize := g.nodeIds.foldl (fun ls n => lsBump ls (g.layerOf n) 1) []
  (g.nodeIds.foldl (vbalanceStep lmax) (g, lsize)).1

/-- `adjustLayers(n, delta)`: explicit stack -/
def adjustLayers (s : NS) : Nat → List (Nat × Int) → G → M G
  | 0, _, _ => throw "fuel:phase2.adjustLayers"
  | _ + 1, [], g => pure g
  | fuel + 1, (n, delta) :: tl, g =>
    let g := setLayer g n (g.layerOf n - delta)
    let lim := fun k => s.lim.getD k 0
    let kidsOut := ((g.node n).outs.filter fun e => (g.edge e).tree && !(lim n < lim (g.other e n))).map fun e => ((g.edge e).dst, delta)
    let kidsIn := ((g.node n).ins.filter fun e => (g.edge e).tree && !(lim n < lim (g.other e n))).map fun e => ((g.edge e).src, delta)
    -- depth-first, in call order: the calls for Out edges (each with its whole subtree) come before those for In edges
    adjustLayers s fuel (kidsOut ++ kidsIn ++ tl) g

/-- `hbalance` -/
def hbalance (s : NS) : M G :=
  s.g.elist.foldlM (fun g e =>
    let ed := g.edge e
    if !ed.tree || ed.cut != 0 then pure g else
    let s' := { s with g := g }
    match minSlackNonTreeEdge s' e with
    | none => pure g
    | some f =>
      let d := slackE g f
      if d < 1 then pure g
      else if s.lim.getD ed.src 0 < s.lim.getD ed.dst 0 then adjustLayers s' (g.nodes.size * g.nodes.size + 4) [(ed.src, d)] g
      else adjustLayers s' (g.nodes.size * g.nodes.size + 4) [(ed.dst, -d)] g) s.g

/-- `execNetworkSimplex`; balance: 1 = vertical, 2 = horizontal. Also returns (pivots, maxitr). -/
def execNetworkSimplex (thoroughness : Nat) (maxIterFactor : Nat) (balance : Nat) (g : G) : M (G × Nat × Nat) := do
  let s ← feasibleTree g
  let k1 := if maxIterFactor > 0 then maxIterFactor else Nat.sqrt g.nodes.size
  let maxitr := thoroughness * k1
  let rec loop (fuel : Nat) (i : Nat) (s : NS) : M (NS × Nat) :=
    match fuel with
    | 0 => pure (s, i)
    | fuel + 1 =>
      match negCutValueTreeEdge s.g with
      | none => pure (s, i)
      | some e =>
        if i ≥ maxitr then pure (s, i) else
        match minSlackNonTreeEdge s e with
        | none => pure (s, i)
        | some f => do
          let s ← exchange s e f
          loop fuel (i + 1) s
  let (s, pivots) ← loop (maxitr + 1) 0 s
  let g := nsNormalize s.g
  let g ← match balance with
    | 1 => pure (vbalance g)
    | 2 => do
      let g ← hbalance { s with g := g }
      pure (nsNormalize g)
    | _ => pure g
  pure (g, pivots, maxitr)

end Autog
