import Autog.Graph
/-! Operations of internal/graph on the value model, and the canonical form in which a model state is
    compared with a phase-boundary snapshot of the real code. Core-only. -/

namespace Autog

abbrev M := Except String

namespace G

/-- `EdgeList.Remove`: the lists of this library never hold an edge twice, so the in-place delete under a
    live range over the same list removes the first (only) occurrence and keeps the order -/
def removeE (l : List Nat) (e : Nat) : List Nat := l.erase e

/-- `Edge.Reverse` -/
def reverse (g : G) (e : Nat) : G :=
  let ed := g.edge e
  let f := ed.src
  let t := ed.dst
  let g := g.modNode f fun n => { n with outs := removeE n.outs e }
  let g := g.modNode t fun n => { n with ins := removeE n.ins e }
  let g := g.modNode f fun n => { n with ins := n.ins ++ [e] }
  let g := g.modNode t fun n => { n with outs := n.outs ++ [e] }
  g.modEdge e fun ed => { ed with src := t, dst := f, rev := !ed.rev }

def selfLoops (g : G) (e : Nat) : Bool := (g.edge e).src == (g.edge e).dst
/-- `e.ConnectedNode(n)` -/
def other (g : G) (e n : Nat) : Nat := if (g.edge e).dst != n then (g.edge e).dst else (g.edge e).src
/-- `n.VisitEdges`: In then Out -/
def incident (g : G) (n : Nat) : List Nat := (g.node n).ins ++ (g.node n).outs
def layerOf (g : G) (n : Nat) : Int := (g.node n).layer
def isFlat (g : G) (e : Nat) : Bool := g.layerOf (g.edge e).src == g.layerOf (g.edge e).dst

/-- canonical numbering of edges: position in `g.Edges`, then edges only reachable through In/Out lists in
    discovery order (nodes in order, In before Out) — exactly what the harness serialises -/
def canonOrder (g : G) : List Nat :=
  let reach := g.nodes.toList.flatMap fun n => n.ins ++ n.outs
  reach.foldl (fun acc e => if acc.contains e then acc else acc ++ [e]) g.elist

def canon (g : G) : G :=
  let order := g.canonOrder
  let ren := fun (e : Nat) => order.idxOf e
  { nodes := g.nodes.map fun n => { n with ins := n.ins.map ren, outs := n.outs.map ren },
    edges := (order.map g.edge).toArray,
    elist := g.elist.map ren,
    layers := g.layers }

end G

/-- first difference between two canonical states, for the diff report -/
def diffG (a b : G) : String :=
  if a.nodes.size != b.nodes.size then s!"node count {a.nodes.size} vs {b.nodes.size}"
  else if a.elist.length != b.elist.length then s!"edge count {a.elist.length} vs {b.elist.length}"
  else match (a.nodes.toList.zip b.nodes.toList).zipIdx.find? (fun ((x, y), _) => x != y) with
    | some ((x, y), i) =>
      s!"node {i} ({x.id}): layer {x.layer}/{y.layer} pos {x.pos}/{y.pos} virt {x.virt}/{y.virt} x {x.x}/{y.x} y {x.y}/{y.y} " ++
      s!"w {x.w}/{y.w} h {x.h}/{y.h} in {x.ins}/{y.ins} out {x.outs}/{y.outs}"
    | none =>
      if a.edges.size != b.edges.size then s!"edge store {a.edges.size} vs {b.edges.size}"
      else match (a.edges.toList.zip b.edges.toList).zipIdx.find? (fun ((x, y), _) => x != y) with
      | some ((x, y), i) =>
        s!"edge {i}: {x.src}>{x.dst}/{y.src}>{y.dst} rev {x.rev}/{y.rev} delta {x.delta}/{y.delta} w {x.weight}/{y.weight} " ++
        s!"tree {x.tree}/{y.tree} cut {x.cut}/{y.cut} ahs {x.ahs}/{y.ahs} pts {x.pts.length}/{y.pts.length}"
      | none =>
        if a.elist != b.elist then s!"edge list {a.elist} vs {b.elist}"
        else if a.layers.size != b.layers.size then s!"layer count {a.layers.size} vs {b.layers.size}"
        else match (a.layers.toList.zip b.layers.toList).find? (fun (x, y) => x != y) with
        | some (x, y) => s!"layer {x.index}/{y.index}: nodes {x.nodes}/{y.nodes} w {x.w}/{y.w} h {x.h}/{y.h}"
        | none => "?"

end Autog
