import Autog.Model.Pre
import Autog.Model.Phase1
import Autog.Model.Phase2
import Autog.Model.NetworkSimplex
import Autog.Model.Phase3
import Autog.Model.Phase4
import Autog.Model.SinkColoring
import Autog.Model.NsPositioner
import Autog.Model.BrandesKoepf
import Autog.Model.Phase5
import Autog.Model.Layout
/-! The composed model of `autog.Layout` for the configurations whose phases all have an exact model, with the
    ordering heuristic (WMedian's sweeps) as a parameter `ord`: any function from the state after `breakLongEdges` to a
    state. The correspondence keys check each stage of this composition against the traced real run (with the real
    WMedian result in place of `ord`). Core-only. -/

namespace Autog

def thorOf (cfg : Cfg) : Nat := if cfg.thor < 0 then 28 else cfg.thor.toNat

def phase2Model (cfg : Cfg) (g : G) : M G := do
  if g.nodes.size == 1 then buildLayers g
  else if cfg.p2 == 1 then (execLongestPath g) >>= buildLayers
  else do
    let (g, _, _) ← execNetworkSimplex (thorOf cfg) 0 1 g
    buildLayers g

def phase3Model (ord : G → M G) (g : G) : M G := do
  if g.nodes.size == 1 || g.layers.size == 1 then pure g
  else (breakLongEdges g) >>= ord

def phase4Model (cfg : Cfg) (g : G) : M G := do
  if g.nodes.size == 1 then phase4Simple 1 cfg.ns cfg.ls g
  else match cfg.p4 with
    | 0 => do
      let (g, _) ← execSinkColoring cfg.ns g
      pure (assignYCoords cfg.ls g)
    | 1 => phase4Simple 1 cfg.ns cfg.ls g
    | 2 => phase4Simple 2 cfg.ns cfg.ls g
    | 3 => (execNsPositioner (thorOf cfg) 4 cfg.ns g).map (assignYCoords cfg.ls)
    | 4 => (BK.execBrandesKoepf cfg.bk cfg.ns g).map (assignYCoords cfg.ls)
    | 5 => pure g      -- `NoPositioning`: returns before `assignYCoords`
    | _ => throw "unknown positioner"

/-- one component through the whole pipeline -/
def layoutComponent (ord : G → M G) (cfg : Cfg) (c : G × List Nat) : M G := do
  let g ← phase1 cfg.p1 c.1
  let g ← phase2Model cfg g
  let g ← phase3Model ord g
  let g ← phase4Model cfg g
  let g ← phase5 cfg.p5 cfg.ls g
  pure (postProcess g c.2)

/-! ### identifiers are carried, never read

    After pre-processing the code never looks at a node id again (fact group `Ids`); the composed model makes that explicit: every
    component runs through the pipeline with its ids blanked and gets them back, by node number, at the end. `T:pipeline` compares
    THIS function (`layoutModelP`) with the public result of the real `Layout` on every traced run, names like "V1" and "" included. -/

def eraseIds (g : G) : G := { g with nodes := g.nodes.map fun n => { n with id := "" } }

/-- the first `tbl.size` nodes (the real ones) get their ids back; helper nodes keep the "V<k>" the pipeline gave them -/
def reattach (tbl : Array String) (gf : G) : G :=
  { gf with nodes := gf.nodes.mapIdx fun i n => if i < tbl.size then { n with id := tbl.getD i "" } else n }

def idTable (g : G) : Array String := g.nodes.map (·.id)

def layoutComponentP (ord : G → M G) (cfg : Cfg) (c : G × List Nat) : M G := do
  let gf ← layoutComponent ord cfg (eraseIds c.1, c.2)
  pure (reattach (idTable c.1) gf)

def layoutModelP (ord : G → M G) (cfg : Cfg) (es : InEdges) : M Out := do
  let comps ← preProcess cfg es
  let finals ← comps.mapM (layoutComponentP ord cfg)
  pure (collect cfg 0 0 finals)

/-- `autog.Layout` -/
def layoutModel (ord : G → M G) (cfg : Cfg) (es : InEdges) : M Out := do
  let comps ← preProcess cfg es
  let finals ← comps.mapM (layoutComponent ord cfg)
  pure (collect cfg 0 0 finals)


/-! ### sizes and spacings enter after the ordering phase

    Phases 0–3 never read a node size or a spacing (fact group `Numbers`: `sizeReadsPhases123`); the composed model makes that explicit
    too: `layoutModelS` runs pre-processing and phases 1–3 under options from which every size and spacing has been removed, and only then
    gives every real node the size the options configure for its id (helper nodes 0, every other piece of geometry reset). `T:pipeline-sizes`
    compares THIS function with the public result of the real `Layout` on every traced run. -/

/-- the options with every size and spacing removed: all that phases 0–3 get to see -/
def sizeFreeCfg (cfg : Cfg) : Cfg := { cfg with ns := 0, ls := 0, fixed := none, sizes := none }

/-- node sizes from the options, by id; helper nodes 0; coordinates, layer sizes and route points reset -/
def attachSizes (cfg : Cfg) (g : G) : G :=
  { g with nodes := g.nodes.map fun n =>
             { n with x := 0, y := 0, w := if n.virt then 0 else (sizeOf cfg n.id).1, h := if n.virt then 0 else (sizeOf cfg n.id).2 },
           layers := g.layers.map fun l => { l with w := 0, h := 0 },
           edges := g.edges.map fun ed => { ed with pts := [] } }

def layoutComponentS (ord : G → M G) (cfg : Cfg) (c : G × List Nat) : M G := do
  let g ← phase1 cfg.p1 c.1
  let g ← phase2Model (sizeFreeCfg cfg) g
  let g ← phase3Model ord g
  let g ← phase4Model cfg (attachSizes cfg g) >>= phase5 cfg.p5 cfg.ls
  pure (postProcess g c.2)

def layoutModelS (ord : G → M G) (cfg : Cfg) (es : InEdges) : M Out := do
  let comps ← preProcess (sizeFreeCfg cfg) es
  let finals ← comps.mapM (layoutComponentS ord cfg)
  pure (collect cfg 0 0 finals)

end Autog
