import Autog.Model.Pre
import Autog.Model.Phase1
import Autog.Model.Phase2
import Autog.Model.NetworkSimplex
import Autog.Model.Phase3
import Autog.Model.Phase4
import Autog.Model.SinkColoring
import Autog.Model.NsPositioner
import Autog.Model.BrandesKoepf
import Autog.Model.Phase5
import Autog.Model.Layout
/-! The composed model of `autog.Layout` for the configurations whose phases all have an exact model, with the
    ordering heuristic (WMedian's sweeps) as a parameter `ord`: any function from the state after `breakLongEdges` to a
    state. The correspondence keys check each stage of this composition against the traced real run (with the real
    WMedian result in place of `ord`). Core-only. -/

namespace Autog

def thorOf (cfg : Cfg) : Nat := if cfg.thor < 0 then 28 else cfg.thor.toNat

def phase2Model (cfg : Cfg) (g : G) : M G := do
  if g.nodes.size == 1 then buildLayers g
  else if cfg.p2 == 1 then (execLongestPath g) >>= buildLayers
  else do
    let (g, _, _) ← execNetworkSimplex (thorOf cfg) 0 1 g
    buildLayers g

def phase3Model (ord : G → M G) (g : G) : M G := do
  if g.nodes.size == 1 || g.layers.size == 1 then pure g
  else (breakLongEdges g) >>= ord

def phase4Model (cfg : Cfg) (g : G) : M G := do
  if g.nodes.size == 1 then phase4Simple 1 cfg.ns cfg.ls g
  else match cfg.p4 with
    | 0 => do
      let (g, _) ← execSinkColoring cfg.ns g
      pure (assignYCoords cfg.ls g)
    | 1 => phase4Simple 1 cfg.ns cfg.ls g
    | 2 => phase4Simple 2 cfg.ns cfg.ls g
    | 3 => (execNsPositioner (thorOf cfg) 4 cfg.ns g).map (assignYCoords cfg.ls)
    | 4 => (BK.execBrandesKoepf cfg.bk cfg.ns g).map (assignYCoords cfg.ls)
    | _ => throw "unknown positioner"

/-- one component through the whole pipeline -/
def layoutComponent (ord : G → M G) (cfg : Cfg) (c : G × List Nat) : M G := do
  let g ← phase1 cfg.p1 c.1
  let g ← phase2Model cfg g
  let g ← phase3Model ord g
  let g ← phase4Model cfg g
  let g ← phase5 cfg.p5 cfg.ls g
  pure (postProcess g c.2)

/-- `autog.Layout` -/
def layoutModel (ord : G → M G) (cfg : Cfg) (es : InEdges) : M Out := do
  let comps ← preProcess cfg es
  let finals ← comps.mapM (layoutComponent ord cfg)
  pure (collect cfg 0 0 finals)

end Autog
