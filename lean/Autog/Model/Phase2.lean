import Autog.Model.Core
import Autog.Lemmas.LongestPath
/-! Model of internal/phase2: the layer list built by `Alg.Process`, and LongestPath layering (repaired
    code). The memoised traversal is the machine of the lemma library. Core-only. -/

namespace Autog

/-- out-neighbours in `n.Out` order, self-loops included (the machine skips them) -/
def outNbrs (g : G) (n : Nat) : List Nat := (g.node n).outs.map fun e => (g.edge e).dst

def lpFuel (g : G) : Nat := 2 * g.edges.size + 2 * g.nodes.size + 4

/-- heights of all nodes: one run of `followLongestPath` per node not yet in the memo.
    Go visits the nodes in `sort.Slice` order; the heights do not depend on the order (LongestPath.run_inv) -/
def heightsLoop (g : G) : List Nat → List (Nat × Nat) → M (List (Nat × Nat))
  | [], memo => pure memo
  | n :: ns, memo =>
    if (LongestPath.look memo n).isSome then heightsLoop g ns memo
    else match LongestPath.run (outNbrs g) (lpFuel g) ⟨[(n, outNbrs g n, 1)], memo⟩ with
      | some m => heightsLoop g ns m
      | none => throw "fuel:phase2.followLongestPath"

def heights (g : G) : M (List (Nat × Nat)) := heightsLoop g g.nodeIds []

def execLongestPath (g : G) : M G := do
  let memo ← heights g
  let ht := fun n => (LongestPath.look memo n).getD 0
  let nlayers := g.nodeIds.foldl (fun m n => max m (ht n)) 0
  pure { g with nodes := g.nodes.mapIdx fun i n => { n with layer := (nlayers : Int) - (ht i : Int) } }

/-- the layer list: `ls[n.Layer]` collects the nodes in `g.Nodes` order; empty layers are filled in -/
def buildLayers (g : G) : M G := do
  let size := g.nodeIds.foldl (fun m n => max m (g.layerOf n)) 0 + 1
  if g.nodeIds.any fun n => g.layerOf n < 0 then throw "panic:index out of range (negative layer)"
  let layers := (List.range size.toNat).map fun (i : Nat) =>
    ({ index := (i : Int), nodes := g.nodeIds.filter fun n => g.layerOf n == (i : Int) } : Layer)
  pure { g with layers := layers.toArray }

end Autog
