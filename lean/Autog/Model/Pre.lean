import Autog.Model.Core
import Autog.Spec.Output
import Autog.Lemmas.ComponentsDfs
import Autog.Lemmas.PopulateRename
/-! Model of everything before phase 1: `EdgeSlice.Populate`, the size options, `connected.Components`
    (on the repaired code: node and edge order kept) and `preprocessor.IgnoreSelfLoops`; and of the
    post-processing (`restoreSelfLoops`, `UnreverseEdges`). Core-only. -/

namespace Autog

/-- `EdgeSlice.Populate`: interning by first appearance is exactly `PopulateRename.populate` -/
def populate (es : InEdges) : G :=
  let pg := PopulateRename.populate es
  let ids := pg.ids
  let nodes := ids.zipIdx.map fun (id, i) =>
    ({ id := id,
       ins := (pg.edges.zipIdx.filter fun (e, _) => e.2 == i).map (·.2),
       outs := (pg.edges.zipIdx.filter fun (e, _) => e.1 == i).map (·.2) } : Node)
  { nodes := nodes.toArray,
    edges := (pg.edges.map fun e => ({ src := e.1, dst := e.2 } : Edge)).toArray,
    elist := List.range pg.edges.length }

/-- `WithNodeFixedSize` then `WithNodeSize` (repaired: only listed ids, only W and H) -/
def applySizes (cfg : Cfg) (g : G) : G :=
  { g with nodes := g.nodes.map fun n =>
      let (w, h) := sizeOf cfg n.id
      { n with w := w, h := h } }

/-- `walkDfs`: the machine of ComponentsDfs on the incidence lists In ++ Out -/
def incOf (g : G) (n : Nat) : List ComponentsDfs.Inc := (g.incident n).map fun e => (e, g.other e n)

/-- walkDfs recurses once per edge (not per node): at most E + 1 frames, each with at most 2E incident edges -/
def walkFuel (g : G) : Nat := (g.edges.size + 2) * (2 * g.edges.size + 2) + 2

def walkDfs (g : G) (start : Nat) : M (List Nat × List Nat) :=
  match ComponentsDfs.run (incOf g) (walkFuel g) ⟨[(start, incOf g start)], [start], []⟩ with
  | some c => pure (dedup c.visN, c.visE)   -- Go's visited sets are maps: a node reached twice counts once
  | none => throw "fuel:connected.walkDfs"

/-- `subgraph`: the visited nodes and edges in the order of g, renumbered -/
def subgraph (g : G) (ns es : List Nat) : G :=
  let nodeOrder := g.nodeIds.filter ns.contains
  let edgeOrder := g.elist.filter es.contains
  let rn := fun (n : Nat) => nodeOrder.idxOf n
  let re := fun (e : Nat) => edgeOrder.idxOf e
  { nodes := (nodeOrder.map fun n =>
      let nd := g.node n
      { nd with ins := nd.ins.map re, outs := nd.outs.map re }).toArray,
    edges := (edgeOrder.map fun e =>
      let ed := g.edge e
      { ed with src := rn ed.src, dst := rn ed.dst }).toArray,
    elist := List.range edgeOrder.length }

/-- the loop `for _, n := range g.Nodes { if !visited[n] { walkDfs(n) … } }` of `connected.Components` -/
def componentsLoop (g : G) : List Nat → List Nat → List G → M (List G)
  | [], _, out => pure out
  | n :: rest, visited, out =>
    if visited.contains n then componentsLoop g rest visited out
    else do
      let (ns, es) ← walkDfs g n
      componentsLoop g rest (visited ++ ns) (out ++ [subgraph g ns es])

/-- `connected.Components` -/
def components (g : G) : M (List G) := do
  if g.nodes.size == 0 then throw "panic:autog: node set is empty"
  let (vn, ve) ← walkDfs g 0
  if vn.length == g.nodes.size then return [g]
  componentsLoop g g.nodeIds vn [subgraph g vn ve]

/-- `IgnoreSelfLoops`: strips e.From == e.To; returns the nodes carrying the stripped loops, in edge order -/
def stripLoop (g : G) (e : Nat) : G :=
  let v := (g.edge e).src
  let g := g.modNode v fun n => { n with outs := G.removeE n.outs e }
  let g := g.modNode v fun n => { n with ins := G.removeE n.ins e }
  { g with elist := G.removeE g.elist e }

def ignoreSelfLoops (g : G) : G × List Nat :=
  let del := g.elist.filter g.selfLoops
  (del.foldl stripLoop g, del.map fun e => (g.edge e).src)

/-- the closure returned by IgnoreSelfLoops: re-adds the loops in their original order -/
def restoreSelfLoops (g : G) (loops : List Nat) : G :=
  loops.foldl (fun g v =>
    let e := g.edges.size
    let g := { g with edges := g.edges.push { src := v, dst := v } }
    let g := g.modNode v fun n => { n with outs := n.outs ++ [e] }
    let g := g.modNode v fun n => { n with ins := n.ins ++ [e] }
    { g with elist := g.elist ++ [e] }) g

/-- `postprocessor.UnreverseEdges` -/
def unreverseEdges (g : G) : G :=
  g.elist.foldl (fun g e => if (g.edge e).rev then g.reverse e else g) g

/-- everything before phase 1, per component: (state at trace stage 0, nodes that carry stripped self-loops) -/
def preProcess (cfg : Cfg) (es : InEdges) : M (List (G × List Nat)) := do
  let g := applySizes cfg (populate es)
  let cs ← components g
  pure (cs.map ignoreSelfLoops)

def postProcess (g : G) (loops : List Nat) : G := unreverseEdges (restoreSelfLoops g loops)

end Autog
