import Lean.Data.Json
import Autog.Graph
import Autog.Spec.Output
/-! Line protocol of the driver: decoding of cases, outputs and phase snapshots. Driver-side only. -/

namespace Autog
open Lean

abbrev E := Except String

/-- exact float64: "<mantissa>p<exp>" -/
def parseF (s : String) : E Rat :=
  match s.splitOn "p" with
  | [m, e] =>
    match m.toInt?, (if e.startsWith "+" then (e.drop 1).toInt? else e.toInt?) with
    | some m, some e =>
      if e ≥ 0 then pure ((m * (2 : Int) ^ e.toNat : Int) : Rat)
      else pure ((m : Rat) / (((2 : Nat) ^ (-e).toNat : Nat) : Rat))
    | _, _ => throw s!"nonfinite:{s}"
  | _ => throw s!"nonfinite:{s}"

def jF (j : Json) : E Rat := do parseF (← j.getStr?)
def jArr (j : Json) : E (List Json) := do pure (← j.getArr?).toList
def jNat (j : Json) : E Nat := do
  let i ← j.getInt?
  if i < 0 then throw s!"negative index {i}" else pure i.toNat
def jPt (j : Json) : E Pt := do
  match ← jArr j with
  | [a, b] => pure (← jF a, ← jF b)
  | _ => throw "bad point"
def jPts (j : Json) : E (List Pt) := do (← jArr j).mapM jPt
def field (j : Json) (k : String) : E Json := j.getObjVal? k
def fieldOpt (j : Json) (k : String) : Option Json :=
  match j.getObjVal? k with
  | .ok .null => none
  | .ok v => some v
  | .error _ => none

def parseCfg (j : Json) : E Cfg := do
  let nsS ← (← field j "ns").getStr?
  let lsS ← (← field j "ls").getStr?
  let ns ← if nsS == "" then pure (60 : Rat) else parseF nsS
  let ls ← if lsS == "" then pure (150 : Rat) else parseF lsS
  let fixed ← match fieldOpt j "fixed" with
    | none => pure none
    | some f => do
      match ← jArr f with
      | [w, h] => pure (some (← jF w, ← jF h))
      | _ => throw "bad fixed"
  let sizes ← match fieldOpt j "sizes" with
    | none => pure none
    | some (.obj kvs) => do
      let l ← kvs.toList.mapM fun (k, v) => do
        match ← jArr v with
        | w :: h :: _ => pure (k, (← jF w), (← jF h))
        | _ => throw "bad size"
      pure (some l)
    | some _ => throw "bad sizes"
  let getN (k : String) : E Nat := do jNat (← field j k)
  let p3 ← match fieldOpt j "p3" with
    | some v => jNat v
    | none => pure 0
  pure { p1 := ← getN "p1", p2 := ← getN "p2", p3, p4 := ← getN "p4", bk := ← (← field j "bk").getInt?,
         p5 := ← getN "p5", ns, ls, fixed, sizes, virt := ← (← field j "virt").getBool?,
         thor := ← (← field j "thor").getInt? }

def parseEdges (j : Json) : E InEdges := do
  (← jArr j).mapM fun e => do
    match ← jArr e with
    | [a, b] => pure (← a.getStr?, ← b.getStr?)
    | _ => throw "bad edge"

def parseOut (j : Json) (nmeta : Option Json) : E Out := do
  let ns ← jArr (← field j "nodes")
  let ms ← match nmeta with
    | some m => jArr m
    | none => pure []
  let nodes ← (ns.zipIdx).mapM fun (n, i) => do
    match ← jArr n with
    | [id, x, y, w, h] =>
      let (virt, layer, comp) ← match ms[i]? with
        | some m => do
          match ← jArr m with
          | [v, l, c] => pure (← v.getBool?, ← l.getInt?, ← jNat c)
          | _ => throw "bad meta"
        | none => pure (false, (0 : Int), 0)
      pure ({ id := ← id.getStr?, x := ← jF x, y := ← jF y, w := ← jF w, h := ← jF h, virt, layer, comp } : ONode)
    | _ => throw "bad out node"
  let edges ← (← jArr (← field j "edges")).mapM fun e => do
    match ← jArr e with
    | [s, d, a, p] =>
      let pts ← match p with
        | .null => pure none
        | p => do pure (some (← jPts p))
      pure ({ src := ← s.getStr?, dst := ← d.getStr?, ahs := ← a.getBool?, pts } : OEdge)
    | _ => throw "bad out edge"
  pure { nodes, edges }

/-- a phase-boundary snapshot as a graph state; edge ids = position in g.Edges, then the extra ("x") edges -/
def parseSnap (j : Json) : E G := do
  let nodes ← (← jArr (← field j "n")).mapM fun n => do
    match ← jArr n with
    | [id, layer, pos, virt, x, y, w, h, ins, outs] =>
      pure ({ id := ← id.getStr?, layer := ← layer.getInt?, pos := ← pos.getInt?, virt := ← virt.getBool?,
              x := ← jF x, y := ← jF y, w := ← jF w, h := ← jF h,
              ins := ← (← jArr ins).mapM jNat, outs := ← (← jArr outs).mapM jNat } : Node)
    | _ => throw "bad snap node"
  let pe (e : Json) : E Edge := do
    match ← jArr e with
    | [s, d, rev, delta, weight, tree, cut, ahs, pts] =>
      pure ({ src := ← jNat s, dst := ← jNat d, rev := ← rev.getBool?, delta := ← delta.getInt?,
              weight := ← weight.getInt?, tree := ← tree.getBool?, cut := ← cut.getInt?, ahs := ← ahs.getBool?,
              pts := ← jPts pts } : Edge)
    | _ => throw "bad snap edge"
  let es ← (← jArr (← field j "e")).mapM pe
  let xs ← (← jArr (← field j "x")).mapM pe
  let layers ← (← jArr (← field j "l")).mapM fun l => do
    match ← jArr l with
    | [idx, ns, w, h] => pure ({ index := ← idx.getInt?, nodes := ← (← jArr ns).mapM jNat, w := ← jF w, h := ← jF h } : Layer)
    | _ => throw "bad snap layer"
  pure { nodes := nodes.toArray, edges := (es ++ xs).toArray, elist := List.range es.length, layers := layers.toArray }

end Autog
