import Autog.Json
import Autog.Spec.Geom
/-! Driver side of C19 / C20: decoding of corridor cases and evaluation of the verified checkers. -/

namespace Autog
open Lean SegmentInsideRects

def parseRects (j : Json) : E Corridor := do
  (← jArr j).mapM fun r => do
    match ← jArr r with
    | [a, b, c, d] => pure (⟨← jF a, ← jF c, ← jF b, ← jF d⟩ : Rect)     -- [tlx, tly, brx, bry] ↦ l r top bot
    | _ => throw "bad rect"

def geomFailure (obs : Json) : Option String :=
  match fieldOpt obs "crash" with
  | some c => some s!"crash:{c.getStr?.toOption.getD "?"}@{((fieldOpt obs "site").bind (·.getStr?.toOption)).getD ""}"
  | none => match fieldOpt obs "panic" with
    | some p => some s!"panic:{p.getStr?.toOption.getD "?"}@{((fieldOpt obs "site").bind (·.getStr?.toOption)).getD ""}"
    | none => none

/-- the C19 verdict for a returned path: (ok, why) -/
def c19Verdict (rects : Corridor) (p1 p2 : Pt) (path : List Pt) (alt : Option (List Pt)) : Bool × String :=
  if !(path.head? == some p2 && path.getLast? == some p1) then (false, "path does not run from the end point to the start point")
  else if !pathInside rects path then (false, "a segment of the path leaves the corridor")
  else match alt with
    | some a =>
      if a.head? == some p2 && a.getLast? == some p1 && pathInside rects a && definitelyShorter a path then
        (false, s!"a shorter path inside the corridor exists: {a.length} points, length < {lenHi a} vs > {lenLo path}")
      else (true, "")
    | none => (true, "")

def evalShortest (j obs : Json) : E (List (String × Bool × String)) := do
  let arg ← field j "arg"
  let rects ← parseRects (← field arg "rects")
  let p1 ← jPt (← field arg "p1")
  let p2 ← jPt (← field arg "p2")
  let cls ← (← field arg "cls").getStr?
  if !corridorWF rects then throw "generator produced an ill-formed corridor"
  if let some f := geomFailure obs then return [("C19", false, s!"cls={cls} {f}")]
  let path ← jPts (← field obs "path")
  let alt ← match fieldOpt obs "alt" with
    | some a => do pure (some (← jPts a))
    | none => pure none
  let (ok, why) := c19Verdict rects p1 p2 path alt
  pure [("C19", ok, s!"cls={cls} {why}")]

def parsePiece (j : Json) : E Piece := do
  match ← jPts j with
  | [a, b, c, d] => pure ⟨a, b, c, d⟩
  | _ => throw "bad piece"

def piecesJoin : List Piece → Bool
  | a :: b :: rest => a.p3 == b.p0 && piecesJoin (b :: rest)
  | _ => true

/-- every crossing of the corridor boundary by the pieces (located by bisection between two sample points on different
    sides) lies within 0.04 of a rectangle corner: the fitter ignores intersections closer than √0.001 ≈ 0.032 to the
    end points of a boundary segment -/
def crossingsNearCorners (rects : Corridor) (pieces : List Piece) : Bool :=
  let inside := fun (p : Pt) => rects.any (ptIn · p)
  let corners : List Pt := rects.flatMap fun R => [(R.l, R.top), (R.r, R.top), (R.l, R.bot), (R.r, R.bot)]
  let near := fun (p : Pt) => corners.any fun c => (p.1 - c.1) * (p.1 - c.1) + (p.2 - c.2) * (p.2 - c.2) ≤ (1 / 25) * (1 / 25)
  let ts : List Rat := (List.range 257).map fun (k : Nat) => ((k : Nat) : Rat) / 256
  pieces.all fun c =>
    (ts.zip ts.tail).all fun (a, b) =>
      let ia := inside (c.at a)
      if ia == inside (c.at b) then true
      else
        let (lo, hi) := (List.range 12).foldl (fun (acc : Rat × Rat) _ =>
          let m := (acc.1 + acc.2) / 2
          if inside (c.at m) == ia then (m, acc.2) else (acc.1, m)) (a, b)
        near (c.at lo) || near (c.at hi)

def evalFitSpline (j obs : Json) : E (List (String × Bool × String)) := do
  let arg ← field j "arg"
  let rects ← parseRects (← field arg "rects")
  let p1 ← jPt (← field arg "p1")
  let p2 ← jPt (← field arg "p2")
  if !corridorWF rects then throw "generator produced an ill-formed corridor"
  if let some f := geomFailure obs then return [("C20", false, s!"fitter or router did not return: {f}")]
  let path ← jPts (← field obs "path")
  let alt ← match fieldOpt obs "alt" with
    | some a => do pure (some (← jPts a))
    | none => pure none
  -- C20 is about the shortest path: if the router's path is not it, that is C19's business
  if !(c19Verdict rects p1 p2 path alt).1 then return []
  match fieldOpt obs "pieces" with
  | none => pure []      -- path with fewer than 3 points: outside the property
  | some ps =>
    let pieces ← (← jArr ps).mapM parsePiece
    match pieces.head?, pieces.getLast? with
    | some f, some l =>
      let grown := inflate (1 / 20) rects
      let ends := f.p0 == path.head! && l.p3 == path.getLast!
      let joins := piecesJoin pieces
      let proved := pieces.all (bezierInside grown 14)
      -- search for a witness when the checker does not accept: sample points of the curve
      let samples := pieces.flatMap fun c => (List.range 257).map fun k => c.at ((k : Rat) / 256)
      let outPts := samples.filter fun p => !grown.any (ptIn · p)
      let outside := !outPts.isEmpty
      -- where the curve leaves: beyond the horizontal edge that carries an end point of the path, or elsewhere
      let top := (rects.head?.map (·.top)).getD 0
      let bot := (rects.getLast?.map (·.bot)).getD 0
      -- … by a piece that itself ends at that end point (the known bulge), or by another piece
      let pathEnds := [path.head!, path.getLast!]
      let touches := fun (c : Piece) (y : Rat) => pathEnds.any fun e => e.2 == y && (c.p0 == e || c.p3 == e)
      let beyondEnds := outPts.all fun p => p.2 < top || p.2 > bot
      let byEndPiece := pieces.all fun c =>
        ((List.range 257).map fun (k : Nat) => c.at ((k : Rat) / 256)).all fun p =>
          grown.any (ptIn · p) || (p.2 < top && touches c top) || (p.2 > bot && touches c bot)
      let kind := if beyondEnds && byEndPiece then "beyond the outer horizontal edge that carries the path's end point"
        else if beyondEnds then "beyond an outer horizontal edge, by a piece that does not end on it"
        else if crossingsNearCorners rects pieces then "slipping through the fitter's vertex tolerance (every crossing of the corridor boundary lies within 0.04 of a rectangle corner)"
        else "through a side or an inner corner"
      let mut out := [("C20", ends && joins && !outside,
        if !ends then "pieces do not start/end at the path's end points" else if !joins then "pieces do not join end to end"
        else s!"a sampled point of the curve lies outside the corridor grown by 0.05: {kind}")]
      if !outside then out := out ++ [("K:c20-contained", proved, "the containment checker could not establish that a piece stays inside (no outside point found)")]
      pure out
    | _, _ => pure [("C20", false, "no pieces returned")]

/-! ### root finder -/
def polyAt (co : List Rat) (x : Rat) : Rat := co.foldr (fun c acc => c + x * acc) 0

/-- exact division by (x − r): coefficients low → high; returns quotient and remainder -/
def deflate (co : List Rat) (r : Rat) : List Rat × Rat :=
  -- synthetic division from the highest coefficient
  let hi := co.reverse
  let (q, rem) := hi.foldl (fun (acc : List Rat × Rat) c => let v := c + r * acc.2; (acc.1 ++ [v], v)) ([], 0)
  ((q.dropLast).reverse, rem)

def trimZeros (co : List Rat) : List Rat := (co.reverse.dropWhile (· == 0)).reverse

def near (a b : Rat) : Bool :=
  let d := if a ≤ b then b - a else a - b
  let m := maxRat 1 (if 0 ≤ b then b else -b)
  d ≤ m / 1000000

def evalSolve (j obs : Json) : E (List (String × Bool × String)) := do
  let arg ← field j "arg"
  let co ← (← jArr (← field arg "coeff")).mapM jF
  let kind ← (← field arg "kind").getInt?
  if let some p := fieldOpt obs "panic" then return [("C20roots", false, s!"kind={kind} panic {p.compress}")]
  let roots ← match fieldOpt obs "roots" with
    | none => return [("C20roots", false, s!"kind={kind} the solver reports a degenerate (all-zero) polynomial")]
    | some r => (← jArr r).mapM jF
  match fieldOpt arg "truth" with
  | some t =>
    let truth ← (← jArr t).mapM jF
    -- validate the truth exactly: deflating by every listed root leaves a polynomial without real roots
    let mut rest := trimZeros co
    for r in truth do
      let (q, rem) := deflate rest r
      if rem != 0 then throw s!"generator: {r} is not a root"
      rest := q
    let noMore := match trimZeros rest with
      | [_] => true
      | [c, b, a] => b * b - 4 * a * c < 0
      | _ => false
    if !noMore then throw "generator: the list of real roots is incomplete"
    let missing := truth.filter fun ρ => !roots.any (near · ρ)
    let spurious := roots.filter fun r => !truth.any (near r ·)
    pure [("C20roots", missing.isEmpty && spurious.isEmpty,
      s!"kind={kind} " ++ (if !missing.isEmpty then s!"real roots not returned: {missing}" else s!"returned values that are not roots: {spurious}"))]
  | none =>
    -- no ground truth: every returned value must be a root (sign change of the exact polynomial across a small interval)
    let bad := roots.filter fun r =>
      let δ := (maxRat 1 (if 0 ≤ r then r else -r)) / 1000000
      let a := polyAt co (r - δ)
      let b := polyAt co (r + δ)
      !((a ≤ 0 && 0 ≤ b) || (b ≤ 0 && 0 ≤ a))
    -- and a polynomial of odd degree has at least one real root
    let deg := (trimZeros co).length - 1
    pure [("C20roots", bad.isEmpty && !(deg % 2 == 1 && roots.isEmpty),
      s!"kind={kind} " ++ (if !bad.isEmpty then s!"returned values that are not roots: {bad}" else "no root returned for a polynomial of odd degree"))]

end Autog
