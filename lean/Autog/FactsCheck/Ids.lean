import Autog.Generated.Facts
/-! T-facts obligations (Ids): the lists regenerated from /repo must equal the lists the models and proofs
    were written against. Hand-maintained expectations; see DESIGN.md. -/

namespace Autog.FactsCheck

theorem idReads_ok : Facts.idReads = [
  "autog.Layout",
  "autog.Layout",
  "autog.Layout",
  "autog.WithNodeSize",
  "internal/graph.DGraph.String",
  "internal/graph.DGraph.String",
  "internal/graph.DGraph.String",
  "internal/graph.DGraph.String",
  "internal/graph.DGraph.String",
  "internal/graph.Edge.String",
  "internal/graph.Edge.String",
  "internal/graph.Node.SVG",
  "internal/graph.Node.String",
  "internal/phase4.networkSimplexProcessor.auxiliaryGraph",
  "internal/processor/preprocessor.IgnoreSelfLoops",
  "internal/processor/preprocessor.IgnoreSelfLoops"
] := by decide

theorem stringKeyedMaps_ok : Facts.stringKeyedMaps = [
  "graph.EdgeSlice.Populate: map[string]*ig.Node"
] := by decide

end Autog.FactsCheck
