import Autog.Generated.Facts
/-! T-facts obligations (Maps): the lists regenerated from /repo must equal the lists the models and proofs
    were written against. Hand-maintained expectations; see DESIGN.md. -/

namespace Autog.FactsCheck

theorem mapRanges_ok : Facts.mapRanges = [
  "internal/graph.hashmap[K, V].Keys: range m #c88fbd78",
  "internal/phase2.networkSimplexProcessor.feasibleTree: range treeNodes #0cb2bae7",
  "internal/phase4.execSinkColoring: range xcoord #f25c1946",
  "internal/phase4.xcoordinates.Size: range xc #aa18c4e8"
] := by decide

theorem mapCalls_ok : Facts.mapCalls = [
  "internal/graph.hashmap[K, V].Clone: maps.Clone",
  "internal/graph/connected.Components: maps.Copy"
] := by decide

theorem sorts_ok : Facts.sorts = [
  "internal/phase2.execLongestPath: sort.Slice",
  "internal/phase3.execWeightedMedian: sort.Slice",
  "internal/phase3.wmedianProcessor.adjacentNodesPositions: sort.Ints",
  "internal/phase3.wmedianRun: sort.Slice",
  "internal/phase4.balanceLayouts: sort.Float64s"
] := by decide

end Autog.FactsCheck
