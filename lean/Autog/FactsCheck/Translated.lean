import Autog.Generated.Translated
import Autog.Model.Phase5
import Autog.Model.WMedian
import Autog.Model.SinkColoring
import Autog.Model.NsPositioner
import Autog.Model.NetworkSimplex
import Autog.Model.BrandesKoepf
/-! T-gen obligations: the leaf functions of the hand-written models compute, for ALL arguments, what the definitions that
    `extract/translate.go` regenerates from the Go sources of /repo on every run compute (`Autog/Generated/Translated.lean`).
    The views `viewN / viewE / viewL` say how a model state presents a node, an edge, a layer to a Go leaf function
    (pointer identity = index in the store). Every theorem here is universally quantified; none is a sample. A change of an
    operator, a constant, a field or a branch in one of the translated Go functions changes the generated definition and
    the corresponding theorem stops type-checking. Core-only. -/

namespace Autog.FactsCheck
open Autog.Gen

def viewN (g : G) (n : Nat) : GNode :=
  let nd := g.node n
  { ptr := n, X := nd.x, Y := nd.y, W := nd.w, H := nd.h, Layer := nd.layer, LayerPos := nd.pos, IsVirtual := nd.virt,
    nIn := nd.ins.length, nOut := nd.outs.length }

def viewE (g : G) (e : Nat) : GEdge :=
  let ed := g.edge e
  { ptr := e, From := viewN g ed.src, To := viewN g ed.dst, Delta := ed.delta, Weight := ed.weight, CutValue := ed.cut,
    IsInSpanningTree := ed.tree, IsReversed := ed.rev, ArrowHeadStart := ed.ahs }

def viewL (k : Nat) (l : Layer) : GLayer := { ptr := k, Index := l.index, len := l.nodes.length, W := l.w, H := l.h }

/-- closes a tie whose two sides are the same arithmetic up to re-association / commutation, so that a harmless reordering of
    a Go expression does not break the obligation -/
macro "tie_arith" : tactic => `(tactic|
  first
    | rfl
    | (dsimp only; omega)
    | (dsimp only; grind)
    | (simp only [Prod.mk.injEq]; constructor <;> grind)
    | (simp only [List.cons.injEq, Prod.mk.injEq, and_true]; refine ⟨⟨?_, ?_⟩, ⟨?_, ?_⟩⟩ <;> grind))

/-- the translator produced every function of the whitelist -/
theorem all_translated : Gen.untranslatable = [] := by decide

theorem translated_ok : Gen.translated = [
  "internal/geom.addp",
  "internal/geom.aeq0",
  "internal/geom.b30",
  "internal/geom.b30pb31",
  "internal/geom.b31",
  "internal/geom.b32",
  "internal/geom.b32pb33",
  "internal/geom.b33",
  "internal/geom.ctrlp.coeff",
  "internal/geom.ctrlp.curvep",
  "internal/geom.dotp",
  "internal/geom.orientation",
  "internal/geom.scalep",
  "internal/geom.sign",
  "internal/geom.solve1",
  "internal/geom.sqdistp",
  "internal/geom.subp",
  "internal/graph.Edge.ConnectedNode",
  "internal/graph.Edge.Crosses",
  "internal/graph.Edge.IsFlat",
  "internal/graph.Edge.SelfLoops",
  "internal/graph.Edge.Type",
  "internal/graph.Layer.Len",
  "internal/graph.Node.Deg",
  "internal/graph.Node.Indeg",
  "internal/graph.Node.Outdeg",
  "internal/phase2.slack",
  "internal/phase3.medianOf",
  "internal/phase3.orderedEdgeNodes",
  "internal/phase3.orderedLayers",
  "internal/phase4.brandesKoepfPositioner.space",
  "internal/phase4.crosses",
  "internal/phase4.networkSimplexProcessor.distCenterPoints",
  "internal/phase4.omega",
  "internal/phase4.outermostPos",
  "internal/phase4.withinOutermostPos",
  "internal/phase5.endPoint",
  "internal/phase5.isVerticallyAligned",
  "internal/phase5.nonTerminalPoint",
  "internal/phase5.startPoint",
  "internal/phase5.straight"] := by decide

/-! ## internal/graph -/

theorem tie_selfLoops (g : G) (e : Nat) : g.selfLoops e = graph_Edge_SelfLoops (viewE g e) := rfl
theorem tie_isFlat (g : G) (e : Nat) : g.isFlat e = graph_Edge_IsFlat (viewE g e) := rfl
theorem tie_connectedNode (g : G) (e n : Nat) : g.other e n = (graph_Edge_ConnectedNode (viewE g e) (viewN g n)).ptr := by
  unfold G.other graph_Edge_ConnectedNode viewE viewN
  dsimp only
  split <;> rfl
theorem edgeType_bools (a b : Bool) :
    some (((if !a && !b then 0 else if a != b then 1 else 2 : Nat)) : Int)
      = (if (!a) && (!b) then pure (0 : Int) else if a != b then pure (1 : Int) else if a && b then pure (2 : Int) else none : Option Int) := by
  cases a <;> cases b <;> rfl
theorem tie_edgeType (g : G) (e : Nat) : some (edgeType g e : Int) = graph_Edge_Type (viewE g e) :=
  edgeType_bools _ _
theorem tie_indeg (g : G) (n : Nat) : ((g.node n).ins.length : Int) = graph_Node_Indeg (viewN g n) := rfl
theorem tie_outdeg (g : G) (n : Nat) : ((g.node n).outs.length : Int) = graph_Node_Outdeg (viewN g n) := rfl
theorem tie_deg (g : G) (n : Nat) : ((g.node n).ins.length : Int) + ((g.node n).outs.length : Int) = graph_Node_Deg (viewN g n) := rfl
theorem tie_layerLen (k : Nat) (l : Layer) : (l.nodes.length : Int) = graph_Layer_Len (viewL k l) := rfl

/-! ## internal/phase2 -/

theorem tie_slack (g : G) (e : Nat) : slackE g e = phase2_slack (viewE g e) := by
  unfold slackE phase2_slack viewE viewN G.layerOf; tie_arith

/-! ## internal/phase3 -/

/-- the bilayer counter takes the longer layer as `upper` (`countCrossings` of the model spells the same test out) -/
theorem tie_orderedLayers (k1 k2 : Nat) (l1 l2 : Layer) :
    (if l1.nodes.length > l2.nodes.length then (viewL k1 l1, viewL k2 l2) else (viewL k2 l2, viewL k1 l1))
      = phase3_orderedLayers (viewL k1 l1) (viewL k2 l2) := by
  unfold phase3_orderedLayers graph_Layer_Len viewL
  by_cases h : l1.nodes.length > l2.nodes.length
  · have : ((l1.nodes.length : Int) > (l2.nodes.length : Int)) := by omega
    simp [h, this]
  · have : ¬ ((l1.nodes.length : Int) > (l2.nodes.length : Int)) := by omega
    simp [h, this]

theorem tie_orderedEdgeNodes (g : G) (upperl : Int) (e : Nat) :
    (let ed := g.edge e
     if g.layerOf ed.src == upperl then (viewN g ed.src, viewN g ed.dst) else (viewN g ed.dst, viewN g ed.src))
      = phase3_orderedEdgeNodes upperl (viewE g e) := rfl

theorem idx_cast (ps : List Int) (i : Int) :
    idx (ps.map fun x => ((x : Int) : Rat)) i = ((ps.getD i.toNat 0 : Int) : Rat) := by
  unfold idx
  rw [List.getD_eq_getElem?_getD, List.getD_eq_getElem?_getD, List.getElem?_map]
  cases ps[i.toNat]? <;> rfl

theorem tie_medianOf (ps : List Int) : medianOf ps = phase3_medianOf ps := by
  unfold medianOf phase3_medianOf
  simp only [List.length_map, idx_cast]
  have hdiv : Int.tdiv (ps.length : Int) 2 = ((ps.length / 2 : Nat) : Int) := by
    rw [Int.tdiv_eq_ediv_of_nonneg (by omega)]; omega
  have hA : (Int.tdiv (ps.length : Int) 2).toNat = ps.length / 2 := by rw [hdiv]; omega
  have hB : (Int.tdiv (ps.length : Int) 2 - 1).toNat = ps.length / 2 - 1 := by rw [hdiv]; omega
  have hC : ((ps.length : Int) - 1).toNat = ps.length - 1 := by omega
  have h0 : (0 : Int).toNat = 0 := rfl
  have h1 : (1 : Int).toNat = 1 := rfl
  have c0 : ((ps.length : Int) == 0) = (ps.length == 0) := by
    rw [Bool.eq_iff_iff]; simp only [beq_iff_eq]; omega
  have c1 : (Int.tmod (ps.length : Int) 2 == 1) = (ps.length % 2 == 1) := by
    have e : Int.tmod (ps.length : Int) 2 = ((ps.length % 2 : Nat) : Int) := by
      rw [Int.tmod_eq_emod_of_nonneg (by omega)]; omega
    rw [e, Bool.eq_iff_iff]; simp only [beq_iff_eq]; omega
  have c2 : ((ps.length : Int) == 2) = (ps.length == 2) := by
    rw [Bool.eq_iff_iff]; simp only [beq_iff_eq]; omega
  simp only [hA, hB, hC, h0, h1, c0, c1, c2]

/-! ## internal/phase4 -/

theorem tie_crosses (g : G) (e f : Nat) : crossesE g e f = phase4_crosses (viewE g e) (viewE g f) := rfl

theorem omega_bools (a b : Bool) :
    some ((if !a && !b then 1 else if a != b then 2 else 8 : Int))
      = (do let t ← (if (!a) && (!b) then pure (0 : Int) else if a != b then pure (1 : Int) else if a && b then pure (2 : Int) else none : Option Int)
            if t == (0 : Int) then pure (1 : Int) else if t == (1 : Int) then pure (2 : Int) else if t == (2 : Int) then pure (8 : Int) else none) := by
  cases a <;> cases b <;> rfl
theorem tie_omega (g : G) (e : Nat) : some (omegaE g e) = phase4_omega (viewE g e) :=
  omega_bools _ _

/-- the separation the auxiliary graph asks for between neighbours (`auxiliaryGraph` of the model spells the same sum out) -/
theorem tie_distCenterPoints (ns : Rat) (g : G) (v w : Nat) :
    (g.node v).w / 2 + (g.node w).w / 2 + ns = phase4_networkSimplexProcessor_distCenterPoints ns (viewN g v) (viewN g w) := rfl

theorem tie_space (c : BK.BKCtx) (n : Nat) : BK.space c n = phase4_brandesKoepfPositioner_space c.ns (viewN c.g n) := by
  unfold BK.space phase4_brandesKoepfPositioner_space viewN; tie_arith

/-- Brandes–Köpf's `r`: the model keeps "no node aligned yet" as `none`; the Go code starts from `outermostPos(dir)` (−1 when
    sweeping right, MaxInt when sweeping left) and asks `withinOutermostPos(r, pos, dir)`. Direction constants: left = 2, right = 3. -/
theorem tie_withinOutermostPos_some (hRight : Bool) (rr pu : Int) :
    some (if hRight then decide (rr < pu) else decide (rr > pu)) = phase4_withinOutermostPos rr pu (if hRight then 3 else 2) := by
  cases hRight <;> rfl

theorem tie_withinOutermostPos_none (hRight : Bool) (pu : Int) (h0 : 0 ≤ pu) (h1 : pu < 9223372036854775807) :
    (do let r ← phase4_outermostPos (if hRight then 3 else 2); phase4_withinOutermostPos r pu (if hRight then 3 else 2)) = some true := by
  cases hRight
  · show some (decide ((9223372036854775807 : Int) > pu)) = some true
    simp [h1]
  · show some (decide ((-1 : Int) < pu)) = some true
    have : (-1 : Int) < pu := by omega
    simp [this]

/-! ## internal/phase5 -/

theorem tie_startPoint (g : G) (n : Nat) : startPoint g n = phase5_startPoint (viewN g n) := by
  unfold startPoint phase5_startPoint viewN; tie_arith
theorem tie_endPoint (g : G) (n : Nat) : endPoint g n = phase5_endPoint (viewN g n) := by
  unfold endPoint phase5_endPoint viewN; tie_arith
theorem tie_straight (g : G) (a b : Nat) : straight g a b = phase5_straight (viewN g a) (viewN g b) := by
  unfold straight phase5_straight; rw [tie_startPoint, tie_endPoint]

theorem tie_nonTerminalPoint (g : G) (n : Nat) :
    (nonTerminalPoint g n).toOption = phase5_nonTerminalPoint (viewN g n) (layerH g (g.node n).layer) := by
  unfold nonTerminalPoint phase5_nonTerminalPoint viewN
  cases h : (g.node n).virt <;> simp [h, Except.toOption, bind, Except.bind, pure, Except.pure, throw, throwThe, MonadExceptOf.throw]

/-- the Ortho router's alignment test (`orthoStep` of the model spells the same comparison out) -/
theorem tie_isVerticallyAligned (g : G) (a b : Nat) :
    ((g.node a).x + (g.node a).w / 2 == (g.node b).x + (g.node b).w / 2) = phase5_isVerticallyAligned (viewN g a) (viewN g b) := rfl

end Autog.FactsCheck
