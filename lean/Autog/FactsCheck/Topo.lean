import Autog.Generated.Facts
/-! T-facts obligations (Topo): the lists regenerated from /repo must equal the lists the models and proofs
    were written against. Hand-maintained expectations; see DESIGN.md. -/

namespace Autog.FactsCheck

theorem topoWrites_ok : Facts.topoWrites = [
  "autog.WithNodeFixedSize: .H",
  "autog.WithNodeFixedSize: .W",
  "autog.WithNodeSize: .H",
  "autog.WithNodeSize: .W",
  "graph.EdgeSlice.Populate: .Edges",
  "graph.EdgeSlice.Populate: .In",
  "graph.EdgeSlice.Populate: .Nodes",
  "graph.EdgeSlice.Populate: .Out",
  "internal/graph.Edge.Reverse: .From",
  "internal/graph.Edge.Reverse: .IsReversed",
  "internal/graph.Edge.Reverse: .To",
  "internal/graph/connected.subgraph: .Edges",
  "internal/graph/connected.subgraph: .Nodes",
  "internal/phase2.Alg.Process: .Nodes",
  "internal/phase3.breakEdge: .Edges",
  "internal/phase3.breakEdge: .In",
  "internal/phase3.breakEdge: .IsReversed",
  "internal/phase3.breakEdge: .Nodes",
  "internal/phase3.breakEdge: .Nodes",
  "internal/phase3.breakEdge: .Out",
  "internal/phase3.breakEdge: .To",
  "internal/phase4.Alg.Process: .H",
  "internal/phase4.Alg.Process: .W",
  "internal/phase4.execBrandesKoepf: .H",
  "internal/phase4.execNetworkSimplex: .H",
  "internal/phase4.execPackRight: .H",
  "internal/phase4.execSinkColoring: .H",
  "internal/phase4.execVerticalAlign: .H",
  "internal/phase4.execVerticalAlign: .H",
  "internal/phase4.execVerticalAlign: .W",
  "internal/phase4.execVerticalAlign: .W",
  "internal/phase4.execVerticalAlign: .W",
  "internal/phase4.networkSimplexProcessor.auxiliaryGraph: .Edges",
  "internal/phase4.networkSimplexProcessor.auxiliaryGraph: .Edges",
  "internal/phase4.networkSimplexProcessor.auxiliaryGraph: .H",
  "internal/phase4.networkSimplexProcessor.auxiliaryGraph: .In",
  "internal/phase4.networkSimplexProcessor.auxiliaryGraph: .In",
  "internal/phase4.networkSimplexProcessor.auxiliaryGraph: .In",
  "internal/phase4.networkSimplexProcessor.auxiliaryGraph: .Nodes",
  "internal/phase4.networkSimplexProcessor.auxiliaryGraph: .Nodes",
  "internal/phase4.networkSimplexProcessor.auxiliaryGraph: .Out",
  "internal/phase4.networkSimplexProcessor.auxiliaryGraph: .Out",
  "internal/phase4.networkSimplexProcessor.auxiliaryGraph: .Out",
  "internal/phase4.networkSimplexProcessor.auxiliaryGraph: .W",
  "internal/phase5.reduceForward: .To"
] := by decide


/-- every place where the code looks at (or sets) the direction flags of an edge: reversal itself, the helper edges of a cut long edge,
    the merge back, the final un-reversal and the copy-out — no layering, ordering or positioning code distinguishes reversed edges -/
theorem flagUses_ok : Facts.flagUses = [
  "autog.Layout: .ArrowHeadStart",
  "internal/graph.Edge.Reverse: .IsReversed",
  "internal/graph.Edge.Reverse: .IsReversed",
  "internal/graph.Edge.String: .IsReversed",
  "internal/phase3.breakEdge: .IsReversed",
  "internal/phase3.breakEdge: .IsReversed",
  "internal/phase5.mergeLongEdges: .ArrowHeadStart",
  "internal/phase5.mergeLongEdges: .IsReversed",
  "internal/phase5.reduceForward: .ArrowHeadStart",
  "internal/phase5.reduceForward: .IsReversed",
  "internal/processor/postprocessor.UnreverseEdges: .IsReversed"
] := by decide

end Autog.FactsCheck
