import Autog.Generated.Translated
import Autog.Lemmas.BezierHull
/-! T-gen for the numerical geometry (C19/C20). `internal/geom` has no hand-written model; its leaf functions are regenerated as Lean
    definitions from the Go sources on every run (`Autog/Generated/Translated.lean`) and THESE theorems are about the regenerated
    definitions, in exact rational arithmetic: the code's own Bernstein basis is a partition of unity and non-negative on [0,1]; the
    curve `curvep` evaluates is, coordinate by coordinate, the cubic `bez` the verified containment checker (`bezierInside_sound`)
    reasons about, so it stays within the bounds of its control points; `coeff` returns the power-basis coefficients of that cubic
    (the polynomial handed to the root finder vanishes exactly where the curve meets the line); `orientation` is the sign of the
    cross product; `solve1` returns exactly the root of a linear polynomial. Binary64 rounding is outside these statements. Core-only. -/

namespace Autog.FactsCheck
open Autog.Gen Autog.BezierHull

/-- the Bernstein basis of the code sums to one -/
theorem geom_bernstein_partition (t : Rat) : geom_b30 t + geom_b31 t + geom_b32 t + geom_b33 t = 1 := by
  unfold geom_b30 geom_b31 geom_b32 geom_b33; grind

theorem geom_b30pb31_eq (t : Rat) : geom_b30pb31 t = geom_b30 t + geom_b31 t := by
  unfold geom_b30pb31 geom_b30 geom_b31; grind

theorem geom_b32pb33_eq (t : Rat) : geom_b32pb33 t = geom_b32 t + geom_b33 t := by
  unfold geom_b32pb33 geom_b32 geom_b33; grind

/-- … and is non-negative on the unit interval -/
theorem geom_bernstein_nonneg (t : Rat) (h0 : 0 ≤ t) (h1 : t ≤ 1) :
    0 ≤ geom_b30 t ∧ 0 ≤ geom_b31 t ∧ 0 ≤ geom_b32 t ∧ 0 ≤ geom_b33 t := by
  have hs : 0 ≤ 1 - t := by grind
  unfold geom_b30 geom_b31 geom_b32 geom_b33
  refine ⟨Rat.mul_nonneg (Rat.mul_nonneg hs hs) hs,
          Rat.mul_nonneg (Rat.mul_nonneg (Rat.mul_nonneg (by decide) h0) hs) hs,
          Rat.mul_nonneg (Rat.mul_nonneg (Rat.mul_nonneg (by decide) h0) h0) hs,
          Rat.mul_nonneg (Rat.mul_nonneg h0 h0) h0⟩

/-- the cubic of the verified containment checker in the code's own basis -/
theorem tie_bez (p0 p1 p2 p3 t : Rat) :
    bez p0 p1 p2 p3 t = geom_b30 t * p0 + geom_b31 t * p1 + geom_b32 t * p2 + geom_b33 t * p3 := by
  unfold bez geom_b30 geom_b31 geom_b32 geom_b33; grind

/-- the point `curvep` evaluates is the point of that cubic, coordinate by coordinate -/
theorem tie_curvep (p0 p1 p2 p3 : GP) (t : Rat) :
    (geom_ctrlp_curvep p0 p1 p2 p3 t).X = bez p0.X p1.X p2.X p3.X t ∧
    (geom_ctrlp_curvep p0 p1 p2 p3 t).Y = bez p0.Y p1.Y p2.Y p3.Y t := by
  unfold geom_ctrlp_curvep
  exact ⟨(tie_bez ..).symm, (tie_bez ..).symm⟩

/-- hull property of the code's curve: on the unit interval it stays above every lower bound of its control points … -/
theorem geom_curvep_ge (p0 p1 p2 p3 : GP) (t lo : Rat) (h0 : lo ≤ p0.X) (h1 : lo ≤ p1.X) (h2 : lo ≤ p2.X) (h3 : lo ≤ p3.X)
    (ht0 : 0 ≤ t) (ht1 : t ≤ 1) : lo ≤ (geom_ctrlp_curvep p0 p1 p2 p3 t).X := by
  rw [(tie_curvep p0 p1 p2 p3 t).1]; exact bez_ge _ _ _ _ t lo h0 h1 h2 h3 ht0 ht1

theorem bez_neg (p0 p1 p2 p3 t : Rat) : bez (-p0) (-p1) (-p2) (-p3) t = - bez p0 p1 p2 p3 t := by
  unfold bez; grind

/-- … and below every upper bound -/
theorem geom_curvep_le (p0 p1 p2 p3 : GP) (t hi : Rat) (h0 : p0.X ≤ hi) (h1 : p1.X ≤ hi) (h2 : p2.X ≤ hi) (h3 : p3.X ≤ hi)
    (ht0 : 0 ≤ t) (ht1 : t ≤ 1) : (geom_ctrlp_curvep p0 p1 p2 p3 t).X ≤ hi := by
  rw [(tie_curvep p0 p1 p2 p3 t).1]
  have := bez_ge (-p0.X) (-p1.X) (-p2.X) (-p3.X) t (-hi) (by grind) (by grind) (by grind) (by grind) ht0 ht1
  rw [bez_neg] at this
  grind

/-- `coeff` returns the power-basis coefficients of the cubic: the polynomial handed to the root finder IS the curve coordinate -/
theorem geom_coeff_power_basis (v0 v1 v2 v3 t : Rat) :
    (match geom_ctrlp_coeff v0 v1 v2 v3 with
     | [c0, c1, c2, c3] => c0 + c1 * t + c2 * (t * t) + c3 * (t * t * t)
     | _ => 0) = bez v0 v1 v2 v3 t := by
  unfold geom_ctrlp_coeff bez
  simp only
  grind

/-- `orientation` is the sign of the cross product (b − a) × (c − a) -/
theorem geom_orientation_sign (a b c : GP) :
    (geom_orientation a b c = 0 ↔ (b.X - a.X) * (c.Y - a.Y) - (b.Y - a.Y) * (c.X - a.X) = 0) ∧
    (geom_orientation a b c = 1 ↔ 0 < (b.X - a.X) * (c.Y - a.Y) - (b.Y - a.Y) * (c.X - a.X)) ∧
    (geom_orientation a b c = -1 ↔ (b.X - a.X) * (c.Y - a.Y) - (b.Y - a.Y) * (c.X - a.X) < 0) := by
  unfold geom_orientation
  simp only
  generalize (b.X - a.X) * (c.Y - a.Y) - (b.Y - a.Y) * (c.X - a.X) = d
  by_cases h1 : d < 0
  · have h2 : ¬ 0 < d := by grind
    have h3 : ¬ d = 0 := by grind
    simp [h1, h2, h3]
  · by_cases h2 : d > 0
    · have h3 : ¬ d = 0 := by grind
      simp [h1, h2, h3]
    · have h3 : d = 0 := by grind
      simp [h3]

/-- swapping two points flips the orientation -/
theorem geom_orientation_swap (a b c : GP) : geom_orientation a c b = - geom_orientation a b c := by
  unfold geom_orientation
  simp only
  have e : (c.X - a.X) * (b.Y - a.Y) - (c.Y - a.Y) * (b.X - a.X) = - ((b.X - a.X) * (c.Y - a.Y) - (b.Y - a.Y) * (c.X - a.X)) := by grind
  rw [e]
  generalize (b.X - a.X) * (c.Y - a.Y) - (b.Y - a.Y) * (c.X - a.X) = d
  by_cases h1 : d < 0
  · have : ¬ (-d < 0) := by grind
    have : -d > 0 := by grind
    simp [*]
  · by_cases h2 : d > 0
    · have : -d < 0 := by grind
      simp [*]
    · have : ¬ (-d < 0) := by grind
      have : ¬ (-d > 0) := by grind
      simp [*]

/-- the linear solver: a leading coefficient the code does not treat as zero gives exactly the root -/
theorem geom_solve1_root (a b : Rat) (ha : geom_aeq0 a = false) :
    ∃ x, geom_solve1 [b, a] = [x] ∧ a * x + b = 0 := by
  unfold geom_solve1
  have hi1 : idx [b, a] (1 : Int) = a := rfl
  have hi0 : idx [b, a] (0 : Int) = b := rfl
  simp only [hi1, hi0, ha, Bool.false_eq_true, if_false]
  refine ⟨-b / a, rfl, ?_⟩
  have hne : a ≠ 0 := by
    intro h0
    subst h0
    have : geom_aeq0 0 = true := by decide +kernel
    rw [this] at ha; cases ha
  rw [Rat.div_def, ← Rat.mul_assoc, Rat.mul_comm a, Rat.mul_assoc, Rat.mul_inv_cancel a hne]
  grind

/-- … and one it treats as zero gives no root at all -/
theorem geom_solve1_degenerate (a b : Rat) (ha : geom_aeq0 a = true) : geom_solve1 [b, a] = [] := by
  unfold geom_solve1
  have hi1 : idx [b, a] (1 : Int) = a := rfl
  simp only [hi1, ha, if_true]
  split <;> rfl

/-! ### the vector helpers of the fitter -/

theorem geom_sqdistp_dot (p q : GP) : geom_sqdistp p q = geom_dotp (geom_subp q p) (geom_subp q p) := rfl

theorem geom_dotp_comm (p q : GP) : geom_dotp p q = geom_dotp q p := by
  unfold geom_dotp; grind

theorem geom_dotp_add (p q r : GP) : geom_dotp (geom_addp p q) r = geom_dotp p r + geom_dotp q r := by
  unfold geom_dotp geom_addp; grind

theorem geom_dotp_scale (p q : GP) (c : Rat) : geom_dotp (geom_scalep p c) q = c * geom_dotp p q := by
  unfold geom_dotp geom_scalep; grind

theorem rat_sq_nonneg (a : Rat) : 0 ≤ a * a := by
  rcases Rat.le_total (a := 0) (b := a) with h | h
  · exact Rat.mul_nonneg h h
  · have h' : 0 ≤ -a := by grind
    have := Rat.mul_nonneg h' h'
    grind

/-- the squared distance is never negative -/
theorem geom_sqdistp_nonneg (p q : GP) : 0 ≤ geom_sqdistp p q := by
  unfold geom_sqdistp
  have h1 := rat_sq_nonneg (q.X - p.X)
  have h2 := rat_sq_nonneg (q.Y - p.Y)
  grind

theorem geom_sqdistp_self (p : GP) : geom_sqdistp p p = 0 := by
  unfold geom_sqdistp; grind

theorem geom_sign_values (x : Rat) : geom_sign x = 1 ∨ geom_sign x = -1 := by
  unfold geom_sign; split
  · right; rfl
  · left; rfl

end Autog.FactsCheck
