import Autog.Generated.Facts
/-! T-facts obligations (Totality): the lists regenerated from /repo must equal the lists the models and proofs
    were written against. Hand-maintained expectations; see DESIGN.md. -/

namespace Autog.FactsCheck

theorem panics_ok : Facts.panics = [
  "autog.Layout",
  "autog.Layout",
  "graph.EdgeSlice.Populate",
  "internal/geom.Shortest",
  "internal/geom.ctrlp.maxerr",
  "internal/graph.Edge.Type",
  "internal/phase1.Alg.Process",
  "internal/phase1.Alg.Process",
  "internal/phase1.execGreedy",
  "internal/phase2.Alg.AssignLayers",
  "internal/phase2.networkSimplexProcessor.exchange",
  "internal/phase2.networkSimplexProcessor.exchange",
  "internal/phase2.networkSimplexProcessor.inHeadComponent",
  "internal/phase2.networkSimplexProcessor.incidentNonTreeEdge",
  "internal/phase3.Alg.Process",
  "internal/phase3.wmedianProcessor.getPos",
  "internal/phase3.wmedianRun",
  "internal/phase4.Alg.Process",
  "internal/phase4.firstNodeInLayer",
  "internal/phase4.iterLayers",
  "internal/phase4.iterNodes",
  "internal/phase4.lastNodeInLayer",
  "internal/phase4.medianNeighborIndices",
  "internal/phase4.nextNodeInLayer",
  "internal/phase4.omega",
  "internal/phase4.outermostPos",
  "internal/phase4.outermostX",
  "internal/phase4.prevNodeInLayer",
  "internal/phase4.withinOutermostPos",
  "internal/phase4.withinOutermostX",
  "internal/phase5.Alg.Process",
  "internal/phase5.nonTerminalPoint",
  "internal/phase5.reduceForward"
] := by decide

theorem unboundedLoops_ok : Facts.unboundedLoops = [
  "internal/geom.MergeRects: for i < len(lps)",
  "internal/geom.MergeRects: for j >= 0",
  "internal/geom.Shortest: for !out",
  "internal/geom.Shortest: for !out",
  "internal/geom.Shortest: for ok",
  "internal/geom.tryfit: for true",
  "internal/phase1.execGreedy: for i > 0",
  "internal/phase1.execGreedy: for len(sinks) > 0",
  "internal/phase1.execGreedy: for len(sources) > 0",
  "internal/phase2.execNetworkSimplex: for e != nil",
  "internal/phase2.networkSimplexProcessor.feasibleTree: for true",
  "internal/phase2.networkSimplexProcessor.initLayers: for len(sources) > 0",
  "internal/phase3.countCrossings: for i > 0",
  "internal/phase3.countCrossings: for k < q",
  "internal/phase3.initFixedPositions: for _n.next != nil",
  "internal/phase3.initFixedPositions: for a.next != nil",
  "internal/phase3.wmedianProcessor.initPositionsFlatEdges: for h != nil && h != n",
  "internal/phase3.wmedianProcessor.sortLayer: for lp < ep",
  "internal/phase3.wmedianProcessor.sortLayer: for lp < ep && medians[nodes[lp]] == -1",
  "internal/phase3.wmedianProcessor.transpose: for improved",
  "internal/phase4.brandesKoepfPositioner.horizontalCompaction: for j < len(g.Layers) && k < g.Layers[j].Len()",
  "internal/phase4.brandesKoepfPositioner.horizontalCompaction: for layout.alignment[v] != layout.blockroot[v]",
  "internal/phase4.brandesKoepfPositioner.placeBlock: for layout.alignment[w] != v",
  "internal/phase4.brandesKoepfPositioner.placeBlock: for true",
  "internal/phase4.setColor: for e == nil || e.SelfLoops() || e.IsFlat()",
  "internal/phase5.reduceForward: for e.To.IsVirtual"
] := by decide

theorem recursive_ok : Facts.recursive = [
  "internal/geom.FitSpline",
  "internal/geom.FitSpline",
  "internal/geom.crossedDiagonals",
  "internal/graph/connected.walkDfs",
  "internal/phase1.depthFirstProcessor.visit",
  "internal/phase1.visit",
  "internal/phase2.followLongestPath",
  "internal/phase2.networkSimplexProcessor.adjustLayers",
  "internal/phase2.networkSimplexProcessor.adjustLayers",
  "internal/phase2.networkSimplexProcessor.walkStreeDfs",
  "internal/phase2.tightTree",
  "internal/phase2.tightTree",
  "internal/phase3.wmedianProcessor.initPositionsFromBottom",
  "internal/phase3.wmedianProcessor.initPositionsFromTop",
  "internal/phase4.brandesKoepfPositioner.placeBlock",
  "internal/phase4.placeBlock",
  "internal/phase4.setColor"
] := by decide

end Autog.FactsCheck
