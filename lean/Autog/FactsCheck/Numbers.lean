import Autog.Generated.Facts
/-! T-facts obligations (Numbers): the lists regenerated from /repo must equal the lists the models and proofs
    were written against. Hand-maintained expectations; see DESIGN.md. -/

namespace Autog.FactsCheck

theorem floatLits_ok : Facts.floatLits = [
  "autog.Layout: 0.0",
  "autog.Layout: 0.0",
  "internal/phase4.assignYCoords: 0.0",
  "internal/phase4.balanceLayouts: 2.0",
  "internal/phase4.execBrandesKoepf: 0.0",
  "internal/phase4.execPackRight: 0.0",
  "internal/phase4.execPackRight: 0.0",
  "internal/phase4.execSinkColoring: 0.0",
  "internal/phase4.execVerticalAlign: 0.0",
  "internal/phase4.execVerticalAlign: 0.0",
  "internal/phase4.execVerticalAlign: 0.0",
  "internal/phase4.medianNeighborIndices: 1.0",
  "internal/phase4.medianNeighborIndices: 1.0",
  "internal/phase4.medianNeighborIndices: 2.0",
  "internal/phase4.medianNeighborIndices: 2.0",
  "internal/phase5.flatNonConsecutive: 20.0"
] := by decide

/-- every other constant that is used as a floating-point number in phases 4, 5 and the top level (integer literals and named
    constants in float context): halving, the fixed offsets of the flat-edge and spline code — no sentinel, no tolerance -/
theorem floatConsts_ok : Facts.floatConsts = [
  "internal/phase4.brandesKoepfPositioner.horizontalCompaction: 0",
  "internal/phase4.brandesKoepfPositioner.placeBlock: 0",
  "internal/phase4.execBrandesKoepf: 0",
  "internal/phase4.execNetworkSimplex: 2",
  "internal/phase4.execVerticalAlign: 2",
  "internal/phase4.networkSimplexProcessor.distCenterPoints: 2",
  "internal/phase4.networkSimplexProcessor.distCenterPoints: 2",
  "internal/phase4.placeBlock: 2",
  "internal/phase5.endPoint: 2",
  "internal/phase5.execOrthoRouting: 2",
  "internal/phase5.execSplines: 2",
  "internal/phase5.execSplines: 2",
  "internal/phase5.flatNonConsecutive: 10",
  "internal/phase5.flatNonConsecutive: 2",
  "internal/phase5.flatNonConsecutive: 2",
  "internal/phase5.flatNonConsecutive: 2",
  "internal/phase5.flatNonConsecutive: 2",
  "internal/phase5.flatNonConsecutive: 5",
  "internal/phase5.flatStraight: 2",
  "internal/phase5.flatStraight: 2",
  "internal/phase5.isVerticallyAligned: 2",
  "internal/phase5.isVerticallyAligned: 2",
  "internal/phase5.nonTerminalPoint: 2",
  "internal/phase5.nonTerminalPoint: 2",
  "internal/phase5.rectBetweenNodes: 3",
  "internal/phase5.rectBetweenNodes: 3",
  "internal/phase5.rectVirtualNode: 10",
  "internal/phase5.rectVirtualNode: 10",
  "internal/phase5.startPoint: 2"
] := by decide

theorem numConversions_ok : Facts.numConversions = [
  "internal/phase2.execNetworkSimplex: float64(len(g.Nodes))",
  "internal/phase2.execNetworkSimplex: int(math.Sqrt(float64(len(g.Nodes))))",
  "internal/phase3.medianOf: float64(x)",
  "internal/phase4.execNetworkSimplex: float64(p.nodes[n].Layer)",
  "internal/phase4.medianNeighborIndices: float64(d)",
  "internal/phase4.medianNeighborIndices: float64(d)",
  "internal/phase4.medianNeighborIndices: int(math.Ceil((float64(d) + 1.0) / 2.0))",
  "internal/phase4.medianNeighborIndices: int(math.Floor((float64(d) + 1.0) / 2.0))",
  "internal/phase4.networkSimplexProcessor.auxiliaryGraph: int(math.Round(p.distCenterPoints(v, w)))",
  "internal/phase5.flatNonConsecutive: float64(dist)"
] := by decide

theorem sizeReadsPhases123_ok : Facts.sizeReadsPhases123 = [
] := by decide

end Autog.FactsCheck
