import Autog.Generated.Facts
/-! T-facts obligations (Shared): the lists regenerated from /repo must equal the lists the models and proofs
    were written against. Hand-maintained expectations; see DESIGN.md. -/

namespace Autog.FactsCheck

theorem globals_ok : Facts.globals = [
  "autog.defaultOptions",
  "autog.defaultOutputOptions",
  "graph._",
  "internal/monitor.a",
  "internal/monitor.m",
  "internal/monitor.p"
] := by decide

theorem globalWrites_ok : Facts.globalWrites = [
  "internal/monitor.PrefixFor: assign monitor.a",
  "internal/monitor.PrefixFor: assign monitor.p",
  "internal/monitor.Reset: assign monitor.a",
  "internal/monitor.Reset: assign monitor.m",
  "internal/monitor.Reset: assign monitor.p",
  "internal/monitor.Set: assign monitor.m"
] := by decide

theorem inits_ok : Facts.inits = [
] := by decide

theorem imports_ok : Facts.imports = [
  "internal/graph/edge.go: sync",
  "internal/graph/node.go: sync",
  "internal/phase1/greedy.go: math/rand",
  "internal/phase1/greedy.go: time"
] := by decide

theorem nondet_ok : Facts.nondet = [
  "internal/monitor.chanMonitor.Log: chan-send",
  "internal/phase1.execGreedy: math/rand.New",
  "internal/phase1.execGreedy: math/rand.NewSource",
  "internal/phase1.execGreedy: time.Now",
  "internal/phase1.execGreedy: time.UnixNano",
  "internal/phase1.greedyProcessor.pickNode: math/rand.Intn"
] := by decide

theorem monitorCalls_ok : Facts.monitorCalls = [
  "autog.Layout: Reset",
  "autog.Layout: Set",
  "internal/monitor.Log: Log",
  "internal/monitor.filteredMonitor.Log: Log",
  "internal/phase1.Alg.Process: Log",
  "internal/phase1.Alg.Process: PrefixFor",
  "internal/phase2.Alg.AssignLayers: PrefixFor",
  "internal/phase3.Alg.Process: Log",
  "internal/phase3.Alg.Process: PrefixFor",
  "internal/phase3.execWeightedMedian: Log",
  "internal/phase4.Alg.Process: PrefixFor",
  "internal/phase4.execBrandesKoepf: Log",
  "internal/phase5.Alg.Process: Log",
  "internal/phase5.Alg.Process: PrefixFor",
  "internal/phase5.execSplines: Log",
  "internal/phase5.execSplines: Log",
  "internal/phase5.execSplines: Log",
  "internal/phase5.execSplines: Log",
  "internal/phase5.execSplines: Log",
  "internal/processor/preprocessor.IgnoreSelfLoops: Log",
  "internal/processor/preprocessor.IgnoreSelfLoops: Log"
] := by decide

theorem layoutMonitorStmts_ok : Facts.layoutMonitorStmts = [
  "imonitor.Set(layoutOpts.monitor)",
  "immediately followed by",
  "defer imonitor.Reset()"
] := by decide

end Autog.FactsCheck
