/-! Basic helpers shared by models, specs and the driver. Core-only. -/

namespace Autog

abbrev Pt := Rat × Rat

/-- association-list lookup with default (Go map read: zero value when absent) -/
def lookupD {α β} [BEq α] (d : β) : List (α × β) → α → β
  | [], _ => d
  | (k, v) :: l, a => if k == a then v else lookupD d l a

def maxRat (a b : Rat) : Rat := if a ≤ b then b else a
def minRat (a b : Rat) : Rat := if a ≤ b then a else b

def listMaxRat (d : Rat) : List Rat → Rat
  | [] => d
  | x :: xs => listMaxRat (maxRat d x) xs

/-- all pairs (a, b) with a before b in the list satisfy p -/
def allPairs {α} (p : α → α → Bool) : List α → Bool
  | [] => true
  | x :: xs => xs.all (p x) && allPairs p xs

/-- consecutive pairs -/
def allAdj {α} (p : α → α → Bool) : List α → Bool
  | [] => true
  | [_] => true
  | x :: y :: xs => p x y && allAdj p (y :: xs)

def dedup {α} [BEq α] : List α → List α
  | [] => []
  | x :: xs => x :: (dedup xs).filter (· != x)

def countOf {α} [BEq α] (a : α) (l : List α) : Nat := (l.filter (· == a)).length

/-- multiset equality of two lists -/
def sameMultiset {α} [BEq α] (l₁ l₂ : List α) : Bool :=
  l₁.length == l₂.length && l₁.all (fun a => countOf a l₁ == countOf a l₂)

end Autog
