module verifextract

go 1.23
