// translate.go — a translator for the straight-line "leaf" functions of the module: pure functions over node / edge / layer
// fields, numbers and booleans (no loops except the make+range "map" idiom, no writes through pointers). For each function of
// the whitelist it prints a Lean 4 definition over the record views of Autog/Gen/Prelude.lean; Autog/FactsCheck/Translated.lean
// proves, for ALL arguments, that the hand-written model functions compute what these regenerated definitions compute.
// Anything outside the supported fragment makes the function "untranslatable": it is listed in `Gen.untranslatable` with the
// reason and its definition is missing, so the tie no longer builds.
package main

import (
	"fmt"
	"go/ast"
	"go/constant"
	"go/token"
	"go/types"
	"math/big"
	"sort"
	"strings"
)

// whitelist: package (short) -> function names ("Recv.Name" for methods)
var leafFuncs = map[string][]string{
	"internal/graph":  {"Edge.SelfLoops", "Edge.IsFlat", "Edge.ConnectedNode", "Edge.Crosses", "Edge.Type", "Node.Indeg", "Node.Outdeg", "Node.Deg", "Layer.Len"},
	"internal/phase2": {"slack"},
	"internal/phase3": {"medianOf", "orderedLayers", "orderedEdgeNodes"},
	"internal/phase4": {"crosses", "networkSimplexProcessor.distCenterPoints", "omega", "brandesKoepfPositioner.space", "withinOutermostPos", "outermostPos"},
	"internal/phase5": {"startPoint", "endPoint", "straight", "nonTerminalPoint", "isVerticallyAligned"},
	// the numerical geometry has no model; its leaf functions are translated so that theorems can be stated about the code's own
	// Bernstein basis, curve evaluation, power-basis coefficients, orientation test and linear solver
	"internal/geom": {"b30", "b31", "b30pb31", "b32", "b33", "b32pb33", "ctrlp.coeff", "ctrlp.curvep", "orientation", "aeq0", "solve1",
		"addp", "subp", "scalep", "dotp", "sqdistp", "sign"},
}

type trErr struct{ msg string }

func bad(format string, a ...any) { panic(trErr{fmt.Sprintf(format, a...)}) }

type tr struct {
	info     *types.Info
	pk       string
	recv     string            // receiver identifier of a processor method ("" otherwise)
	recvFlds map[string]string // field -> lean type, collected on the way (become parameters)
	recvOrd  []string
	monadic  bool // the body can panic: Option monad
	fresh    int
}

func leanName(pk, fn string) string {
	return strings.ReplaceAll(strings.TrimPrefix(pk, "internal/"), "/", "_") + "_" + strings.ReplaceAll(fn, ".", "_")
}

func (t *tr) leanType(ty types.Type) string {
	s := ty.String()
	switch {
	case strings.HasSuffix(s, "internal/graph.Node"):
		return "GNode"
	case strings.HasSuffix(s, "internal/graph.Edge"):
		return "GEdge"
	case strings.HasSuffix(s, "internal/graph.Layer"):
		return "GLayer"
	case strings.HasSuffix(s, "internal/geom.P"):
		return "GP"
	}
	switch u := ty.Underlying().(type) {
	case *types.Basic:
		switch {
		case u.Info()&types.IsFloat != 0:
			return "Rat"
		case u.Info()&types.IsInteger != 0:
			return "Int"
		case u.Info()&types.IsBoolean != 0:
			return "Bool"
		}
	case *types.Pointer:
		return t.leanType(u.Elem())
	case *types.Slice:
		return "List " + paren(t.leanType(u.Elem()))
	case *types.Array:
		if u.Len() == 2 {
			e := t.leanType(u.Elem())
			return "(" + e + " × " + e + ")"
		}
	case *types.Tuple:
		var ps []string
		for i := 0; i < u.Len(); i++ {
			ps = append(ps, t.leanType(u.At(i).Type()))
		}
		return "(" + strings.Join(ps, " × ") + ")"
	}
	bad("type %s", s)
	return ""
}

func paren(s string) string {
	if strings.ContainsAny(s, " ") && !strings.HasPrefix(s, "(") {
		return "(" + s + ")"
	}
	return s
}

func (t *tr) typeOf(e ast.Expr) types.Type { return t.info.TypeOf(e) }

func isFloat(ty types.Type) bool {
	b, ok := ty.Underlying().(*types.Basic)
	return ok && b.Info()&types.IsFloat != 0
}
func isInt(ty types.Type) bool {
	b, ok := ty.Underlying().(*types.Basic)
	return ok && b.Info()&types.IsInteger != 0
}
func isPtrOrStruct(ty types.Type) bool {
	_, ok := ty.Underlying().(*types.Pointer)
	return ok
}

// constant value of the given Go type as a Lean literal
func (t *tr) constLit(v constant.Value, ty types.Type) string {
	switch {
	case isFloat(ty):
		r, ok := new(big.Rat).SetString(v.ExactString())
		if !ok {
			bad("float constant %s", v.ExactString())
		}
		if r.IsInt() {
			if r.Sign() < 0 {
				return fmt.Sprintf("(-%s : Rat)", new(big.Int).Neg(r.Num()).String())
			}
			return fmt.Sprintf("(%s : Rat)", r.Num().String())
		}
		return fmt.Sprintf("((%s : Rat) / %s)", r.Num().String(), r.Denom().String())
	case isInt(ty):
		s := v.ExactString()
		if strings.HasPrefix(s, "-") {
			return fmt.Sprintf("(-%s : Int)", s[1:])
		}
		return fmt.Sprintf("(%s : Int)", s)
	case v.Kind() == constant.Bool:
		return v.ExactString()
	}
	bad("constant of type %s", ty)
	return ""
}

func (t *tr) expr(e ast.Expr) string {
	if tv, ok := t.info.Types[e]; ok && tv.Value != nil {
		return t.constLit(tv.Value, tv.Type)
	}
	switch x := e.(type) {
	case *ast.ParenExpr:
		return "(" + t.expr(x.X) + ")"
	case *ast.Ident:
		if x.Name == "true" || x.Name == "false" {
			return x.Name
		}
		if x.Name == "nil" {
			if _, ok := t.typeOf(x).(*types.Basic); ok { // untyped nil in a slice context
				return "[]"
			}
		}
		return x.Name + "_"
	case *ast.SelectorExpr:
		if id, ok := x.X.(*ast.Ident); ok && id.Name == t.recv && t.recv != "" {
			// a field of the processor: becomes a parameter
			f := x.Sel.Name
			if _, seen := t.recvFlds[f]; !seen {
				t.recvFlds[f] = t.leanType(t.typeOf(x))
				t.recvOrd = append(t.recvOrd, f)
			}
			return t.recv + "_" + f
		}
		sel := t.info.Selections[x]
		if sel == nil || sel.Kind() != types.FieldVal {
			bad("selector %s", src(x))
		}
		switch x.Sel.Name {
		case "X", "Y", "W", "H", "Layer", "LayerPos", "IsVirtual", "From", "To", "Delta", "Weight", "CutValue", "IsReversed", "IsInSpanningTree", "ArrowHeadStart", "Index":
			return t.expr(x.X) + "." + x.Sel.Name
		}
		bad("field %s", x.Sel.Name)
	case *ast.UnaryExpr:
		switch x.Op {
		case token.NOT:
			return "(!" + t.expr(x.X) + ")"
		case token.SUB:
			return "(-" + t.expr(x.X) + ")"
		}
		bad("unary %s", x.Op)
	case *ast.BinaryExpr:
		a, b := t.expr(x.X), t.expr(x.Y)
		ta := t.typeOf(x.X)
		switch x.Op {
		case token.ADD, token.SUB, token.MUL:
			return "(" + a + " " + x.Op.String() + " " + b + ")"
		case token.QUO:
			if isFloat(ta) {
				return "(" + a + " / " + b + ")"
			}
			return "(Int.tdiv " + a + " " + b + ")"
		case token.REM:
			return "(Int.tmod " + a + " " + b + ")"
		case token.LAND:
			return "(" + a + " && " + b + ")"
		case token.LOR:
			return "(" + a + " || " + b + ")"
		case token.EQL, token.NEQ:
			if isPtrOrStruct(ta) {
				a, b = a+".ptr", b+".ptr"
			}
			if x.Op == token.EQL {
				return "(" + a + " == " + b + ")"
			}
			return "(" + a + " != " + b + ")"
		case token.LSS, token.GTR, token.LEQ, token.GEQ:
			op := map[token.Token]string{token.LSS: "<", token.GTR: ">", token.LEQ: "≤", token.GEQ: "≥"}[x.Op]
			return "(decide (" + a + " " + op + " " + b + "))"
		}
		bad("binary %s", x.Op)
	case *ast.CompositeLit:
		if arr, ok := t.typeOf(x).Underlying().(*types.Array); ok && arr.Len() == 2 && len(x.Elts) == 2 {
			return "(" + t.expr(x.Elts[0]) + ", " + t.expr(x.Elts[1]) + ")"
		}
		if _, ok := t.typeOf(x).Underlying().(*types.Slice); ok {
			var es []string
			for _, el := range x.Elts {
				es = append(es, t.expr(el))
			}
			return "[" + strings.Join(es, ", ") + "]"
		}
		if strings.HasSuffix(t.typeOf(x).String(), "internal/geom.P") && len(x.Elts) == 2 {
			var fs []string
			for i, el := range x.Elts {
				if kv, ok := el.(*ast.KeyValueExpr); ok {
					fs = append(fs, src(kv.Key)+" := "+t.expr(kv.Value))
				} else { // positional: X, Y
					fs = append(fs, []string{"X", "Y"}[i]+" := "+t.expr(el))
				}
			}
			return "({ " + strings.Join(fs, ", ") + " } : GP)"
		}
		bad("composite literal %s", src(x))
	case *ast.IndexExpr:
		base := t.typeOf(x.X).Underlying()
		if arr, ok := base.(*types.Array); ok && arr.Len() == 2 {
			if tv, ok := t.info.Types[x.Index]; ok && tv.Value != nil {
				if tv.Value.ExactString() == "0" {
					return t.expr(x.X) + ".1"
				}
				return t.expr(x.X) + ".2"
			}
		}
		if _, ok := base.(*types.Slice); ok {
			return "(idx " + t.expr(x.X) + " " + t.expr(x.Index) + ")"
		}
		bad("index %s", src(x))
	case *ast.CallExpr:
		return t.call(x)
	}
	bad("expression %s", src(e))
	return ""
}

func (t *tr) call(x *ast.CallExpr) string {
	// conversions
	if tv, ok := t.info.Types[x.Fun]; ok && tv.IsType() {
		to := tv.Type
		from := t.typeOf(x.Args[0])
		switch {
		case isFloat(to) && isInt(from):
			return "((" + t.expr(x.Args[0]) + " : Int) : Rat)"
		case isFloat(to) && isFloat(from), isInt(to) && isInt(from):
			return t.expr(x.Args[0])
		}
		bad("conversion %s", src(x))
	}
	switch f := x.Fun.(type) {
	case *ast.Ident:
		switch f.Name {
		case "len":
			if sel, ok := x.Args[0].(*ast.SelectorExpr); ok {
				switch sel.Sel.Name {
				case "In":
					return "(" + t.expr(sel.X) + ".nIn : Int)"
				case "Out":
					return "(" + t.expr(sel.X) + ".nOut : Int)"
				case "Nodes":
					return "(" + t.expr(sel.X) + ".len : Int)"
				}
			}
			return "(" + t.expr(x.Args[0]) + ".length : Int)"
		case "max":
			return "(fmax " + t.expr(x.Args[0]) + " " + t.expr(x.Args[1]) + ")"
		case "min":
			return "(fmin " + t.expr(x.Args[0]) + " " + t.expr(x.Args[1]) + ")"
		}
		// a function of the same package
		if obj, ok := t.info.Uses[f].(*types.Func); ok && short(obj.Pkg().Path()) == t.pk {
			return t.callNamed(leanName(t.pk, f.Name), nil, x.Args)
		}
	case *ast.SelectorExpr:
		if sel := t.info.Selections[f]; sel != nil && sel.Kind() == types.MethodVal {
			fn := sel.Obj().(*types.Func)
			rt := derefT(sel.Recv())
			if named, ok := rt.(*types.Named); ok {
				return t.callNamed(leanName(short(fn.Pkg().Path()), named.Obj().Name()+"."+fn.Name()), f.X, x.Args)
			}
		}
	}
	bad("call %s", src(x))
	return ""
}

var mayPanic = map[string]bool{} // lean names of translated functions that return Option

func (t *tr) callNamed(name string, recv ast.Expr, args []ast.Expr) string {
	var as []string
	if recv != nil {
		as = append(as, t.expr(recv))
	}
	for _, a := range args {
		as = append(as, t.expr(a))
	}
	s := "(" + name + " " + strings.Join(as, " ") + ")"
	if mayPanic[name] {
		if !t.monadic {
			bad("call of a panicking function %s outside a panicking function", name)
		}
		return "(← " + s[1:]
	}
	return s
}

func endsInReturn(ss []ast.Stmt) bool {
	if len(ss) == 0 {
		return false
	}
	switch l := ss[len(ss)-1].(type) {
	case *ast.ReturnStmt:
		return true
	case *ast.ExprStmt:
		if c, ok := l.X.(*ast.CallExpr); ok {
			if id, ok := c.Fun.(*ast.Ident); ok && id.Name == "panic" {
				return true
			}
		}
	case *ast.IfStmt:
		if l.Else == nil {
			return false
		}
		eb, ok := l.Else.(*ast.BlockStmt)
		return ok && endsInReturn(l.Body.List) && endsInReturn(eb.List)
	case *ast.SwitchStmt:
		hasDefault := false
		for _, c := range l.Body.List {
			cc := c.(*ast.CaseClause)
			if cc.List == nil {
				hasDefault = true
			}
			if !endsInReturn(cc.Body) {
				return false
			}
		}
		return hasDefault
	}
	return false
}

func assignedVars(ss []ast.Stmt) []string {
	set := map[string]bool{}
	for _, s := range ss {
		as, ok := s.(*ast.AssignStmt)
		if !ok || as.Tok == token.DEFINE {
			bad("statement in a conditional block: %s", src(s))
		}
		for _, l := range as.Lhs {
			id, ok := l.(*ast.Ident)
			if !ok {
				bad("assignment target %s", src(l))
			}
			set[id.Name+"_"] = true
		}
	}
	var vs []string
	for v := range set {
		vs = append(vs, v)
	}
	sort.Strings(vs)
	return vs
}

func (t *tr) ret(s string) string {
	if t.monadic {
		return "pure " + s
	}
	return s
}

// stmts translates a statement list that ends in a return (or panic) on every path into a Lean term
func (t *tr) stmts(ss []ast.Stmt, ind string) string {
	if len(ss) == 0 {
		bad("control reaches the end of a block without return")
	}
	s, rest := ss[0], ss[1:]
	nl := "\n" + ind
	switch x := s.(type) {
	case *ast.ReturnStmt:
		var rs []string
		for _, r := range x.Results {
			rs = append(rs, t.expr(r))
		}
		if len(rs) == 1 {
			return t.ret(rs[0])
		}
		return t.ret("(" + strings.Join(rs, ", ") + ")")
	case *ast.ExprStmt:
		if c, ok := x.X.(*ast.CallExpr); ok {
			if id, ok := c.Fun.(*ast.Ident); ok && id.Name == "panic" {
				return "none"
			}
		}
		bad("expression statement %s", src(x))
	case *ast.DeclStmt:
		gd := x.Decl.(*ast.GenDecl)
		out := ""
		for _, sp := range gd.Specs {
			vs := sp.(*ast.ValueSpec)
			for i, n := range vs.Names {
				ty := t.leanType(t.info.Defs[n].Type())
				val := "default"
				if len(vs.Values) > i {
					val = t.expr(vs.Values[i])
				} else if ty == "Rat" || ty == "Int" {
					val = "0"
				}
				out += fmt.Sprintf("let %s_ : %s := %s%s", n.Name, ty, val, nl)
			}
		}
		return out + t.stmts(rest, ind)
	case *ast.AssignStmt:
		// the make + range idiom: ys := make([]T, len(xs)); for i, x := range xs { ys[i] = f(x) }
		if len(x.Lhs) == 1 && len(x.Rhs) == 1 && len(rest) > 0 {
			if c, ok := x.Rhs[0].(*ast.CallExpr); ok {
				if id, ok := c.Fun.(*ast.Ident); ok && id.Name == "make" {
					return t.makeRange(x, c, rest, ind)
				}
			}
		}
		var ls, rs []string
		for _, l := range x.Lhs {
			id, ok := l.(*ast.Ident)
			if !ok {
				bad("assignment target %s", src(l))
			}
			ls = append(ls, id.Name+"_")
		}
		for _, r := range x.Rhs {
			rs = append(rs, t.expr(r))
		}
		switch x.Tok {
		case token.DEFINE, token.ASSIGN:
		case token.ADD_ASSIGN:
			rs[0] = "(" + ls[0] + " + " + rs[0] + ")"
		case token.SUB_ASSIGN:
			rs[0] = "(" + ls[0] + " - " + rs[0] + ")"
		default:
			bad("assignment operator %s", x.Tok)
		}
		if len(ls) == 1 {
			return fmt.Sprintf("let %s := %s%s", ls[0], rs[0], nl) + t.stmts(rest, ind)
		}
		if len(ls) != len(rs) {
			bad("assignment %s", src(x))
		}
		return fmt.Sprintf("let (%s) := (%s)%s", strings.Join(ls, ", "), strings.Join(rs, ", "), nl) + t.stmts(rest, ind)
	case *ast.IfStmt:
		if x.Init != nil {
			bad("if with init")
		}
		c := t.expr(x.Cond)
		if endsInReturn(x.Body.List) {
			var els string
			if x.Else != nil {
				eb, ok := x.Else.(*ast.BlockStmt)
				if !ok {
					bad("else if")
				}
				els = t.stmts(append(append([]ast.Stmt{}, eb.List...), rest...), ind+"  ")
			} else {
				els = t.stmts(rest, ind+"  ")
			}
			return "if " + c + " then" + nl + "  " + t.stmts(x.Body.List, ind+"  ") + nl + "else" + nl + "  " + els
		}
		if x.Else != nil {
			bad("if/else that falls through")
		}
		// a block of plain assignments to existing variables
		vs := assignedVars(x.Body.List)
		tup := strings.Join(vs, ", ")
		if len(vs) > 1 {
			tup = "(" + tup + ")"
		}
		inner := ""
		for _, b := range x.Body.List {
			as := b.(*ast.AssignStmt)
			var ls, rs []string
			for _, l := range as.Lhs {
				ls = append(ls, l.(*ast.Ident).Name+"_")
			}
			for _, r := range as.Rhs {
				rs = append(rs, t.expr(r))
			}
			if as.Tok != token.ASSIGN {
				bad("assignment operator %s in a conditional block", as.Tok)
			}
			if len(ls) == 1 {
				inner += fmt.Sprintf("let %s := %s; ", ls[0], rs[0])
			} else {
				inner += fmt.Sprintf("let (%s) := (%s); ", strings.Join(ls, ", "), strings.Join(rs, ", "))
			}
		}
		return fmt.Sprintf("let %s := if %s then (%s%s) else %s%s", tup, c, inner, tup, tup, nl) + t.stmts(rest, ind)
	case *ast.SwitchStmt:
		if x.Init != nil || len(rest) != 0 {
			bad("switch with init or followed by statements")
		}
		tag := ""
		out := ""
		if x.Tag != nil {
			tag = fmt.Sprintf("tag%d_", t.fresh)
			t.fresh++
			out = fmt.Sprintf("let %s := %s%s", tag, t.expr(x.Tag), nl)
		}
		var def []ast.Stmt
		depth := ind
		for _, c := range x.Body.List {
			cc := c.(*ast.CaseClause)
			if cc.List == nil {
				def = cc.Body
				continue
			}
			var conds []string
			for _, ce := range cc.List {
				if tag != "" {
					conds = append(conds, "("+tag+" == "+t.expr(ce)+")")
				} else {
					conds = append(conds, t.expr(ce))
				}
			}
			out += "if " + strings.Join(conds, " || ") + " then" + "\n" + depth + "  " + t.stmts(cc.Body, depth+"  ") + "\n" + depth + "else" + "\n" + depth + "  "
			depth += "  "
		}
		if def == nil {
			bad("switch without default")
		}
		return out + t.stmts(def, depth)
	}
	bad("statement %s", src(s))
	return ""
}

func (t *tr) makeRange(as *ast.AssignStmt, mk *ast.CallExpr, rest []ast.Stmt, ind string) string {
	rg, ok := rest[0].(*ast.RangeStmt)
	ys, ok2 := as.Lhs[0].(*ast.Ident)
	if !ok || !ok2 || len(mk.Args) != 2 || rg.Key == nil || rg.Value == nil || len(rg.Body.List) != 1 {
		bad("make without the range-fill idiom: %s", src(as))
	}
	xs := src(rg.X)
	if src(mk.Args[1]) != "len("+xs+")" {
		bad("make length %s", src(mk.Args[1]))
	}
	fill, ok := rg.Body.List[0].(*ast.AssignStmt)
	if !ok || fill.Tok != token.ASSIGN || len(fill.Lhs) != 1 {
		bad("range body %s", src(rg.Body))
	}
	ix, ok := fill.Lhs[0].(*ast.IndexExpr)
	if !ok || src(ix.X) != ys.Name || src(ix.Index) != src(rg.Key) {
		bad("range body %s", src(rg.Body))
	}
	// the value expression may only mention the range value
	ast.Inspect(fill.Rhs[0], func(n ast.Node) bool {
		if id, ok := n.(*ast.Ident); ok && (id.Name == src(rg.Key) || id.Name == ys.Name) {
			bad("range body reads %s", id.Name)
		}
		return true
	})
	v := rg.Value.(*ast.Ident).Name + "_"
	return fmt.Sprintf("let %s_ := %s.map (fun %s => %s)\n%s", ys.Name, t.expr(rg.X), v, t.expr(fill.Rhs[0]), ind) + t.stmts(rest[1:], ind)
}

func hasPanic(n ast.Node) bool {
	found := false
	ast.Inspect(n, func(m ast.Node) bool {
		if c, ok := m.(*ast.CallExpr); ok {
			if id, ok := c.Fun.(*ast.Ident); ok && id.Name == "panic" {
				found = true
			}
		}
		return true
	})
	return found
}

// calls into translated functions (for ordering and panic propagation)
func (t *tr) callees(n ast.Node) []string {
	var out []string
	ast.Inspect(n, func(m ast.Node) bool {
		c, ok := m.(*ast.CallExpr)
		if !ok {
			return true
		}
		switch f := c.Fun.(type) {
		case *ast.Ident:
			if obj, ok := t.info.Uses[f].(*types.Func); ok && obj.Pkg() != nil && short(obj.Pkg().Path()) == t.pk {
				out = append(out, leanName(t.pk, f.Name))
			}
		case *ast.SelectorExpr:
			if sel := t.info.Selections[f]; sel != nil && sel.Kind() == types.MethodVal {
				fn := sel.Obj().(*types.Func)
				if named, ok := derefT(sel.Recv()).(*types.Named); ok && fn.Pkg() != nil {
					out = append(out, leanName(short(fn.Pkg().Path()), named.Obj().Name()+"."+fn.Name()))
				}
			}
		}
		return true
	})
	return out
}

type leaf struct {
	pk, fn, name string
	fd           *ast.FuncDecl
	info         *types.Info
}

func findLeaves() []leaf {
	var out []leaf
	var pks []string
	for pk := range leafFuncs {
		pks = append(pks, pk)
	}
	sort.Strings(pks)
	for _, pk := range pks {
		path := modPath + "/" + pk
		want := map[string]bool{}
		for _, n := range leafFuncs[pk] {
			want[n] = true
		}
		for _, f := range files[path] {
			for _, d := range f.Decls {
				fd, ok := d.(*ast.FuncDecl)
				if !ok || fd.Body == nil {
					continue
				}
				fn := fd.Name.Name
				if fd.Recv != nil && len(fd.Recv.List) == 1 {
					if named, ok := derefT(infos[path].TypeOf(fd.Recv.List[0].Type)).(*types.Named); ok {
						fn = named.Obj().Name() + "." + fn
					}
				}
				if want[fn] {
					out = append(out, leaf{pk, fn, leanName(pk, fn), fd, infos[path]})
					delete(want, fn)
				}
			}
		}
		for n := range want {
			out = append(out, leaf{pk: pk, fn: n, name: leanName(pk, n)})
		}
	}
	return out
}

func translateAll() string {
	leaves := findLeaves()
	byName := map[string]*leaf{}
	for i := range leaves {
		byName[leaves[i].name] = &leaves[i]
	}
	// panic propagation to a fixed point, then a topological order of the definitions
	calls := map[string][]string{}
	for _, l := range leaves {
		if l.fd == nil {
			continue
		}
		t := &tr{info: l.info, pk: l.pk}
		calls[l.name] = t.callees(l.fd.Body)
		if hasPanic(l.fd.Body) {
			mayPanic[l.name] = true
		}
	}
	for changed := true; changed; {
		changed = false
		for n, cs := range calls {
			for _, c := range cs {
				if mayPanic[c] && !mayPanic[n] {
					mayPanic[n] = true
					changed = true
				}
			}
		}
	}
	var order []string
	done := map[string]bool{}
	var visit func(n string)
	visit = func(n string) {
		if done[n] {
			return
		}
		done[n] = true
		cs := append([]string{}, calls[n]...)
		sort.Strings(cs)
		for _, c := range cs {
			if byName[c] != nil {
				visit(c)
			}
		}
		order = append(order, n)
	}
	var names []string
	for n := range byName {
		names = append(names, n)
	}
	sort.Strings(names)
	for _, n := range names {
		visit(n)
	}
	var b strings.Builder
	b.WriteString("import Autog.Gen.Prelude\n/-! GENERATED by /verif/extract (translate.go) from the Go sources of /repo — do not edit.\n    One definition per whitelisted leaf function; `Gen.translated` / `Gen.untranslatable` list what happened. -/\nset_option linter.unusedVariables false\nnamespace Autog.Gen\n\n")
	var okNames, badNames []string
	failed := map[string]bool{}
	for _, n := range order {
		l := byName[n]
		if l.fd == nil {
			badNames = append(badNames, l.pk+"."+l.fn+": not found")
			failed[n] = true
			continue
		}
		def, err := translateOne(l, failed)
		if err != "" {
			badNames = append(badNames, l.pk+"."+l.fn+": "+err)
			failed[n] = true
			b.WriteString("-- " + l.pk + "." + l.fn + ": NOT TRANSLATED (" + err + ")\n\n")
			continue
		}
		okNames = append(okNames, l.pk+"."+l.fn)
		b.WriteString(def + "\n")
	}
	sort.Strings(okNames)
	sort.Strings(badNames)
	lst := func(name string, xs []string) {
		b.WriteString("def " + name + " : List String := [")
		for i, x := range xs {
			if i > 0 {
				b.WriteString(",")
			}
			b.WriteString("\n  " + leanStr(x))
		}
		b.WriteString("]\n")
	}
	lst("translated", okNames)
	lst("untranslatable", badNames)
	b.WriteString("\nend Autog.Gen\n")
	return b.String()
}

func translateOne(l *leaf, failed map[string]bool) (def string, err string) {
	defer func() {
		if r := recover(); r != nil {
			if te, ok := r.(trErr); ok {
				err = te.msg
				return
			}
			panic(r)
		}
	}()
	t := &tr{info: l.info, pk: l.pk, recvFlds: map[string]string{}, monadic: mayPanic[l.name]}
	for _, c := range t.callees(l.fd.Body) {
		if failed[c] {
			bad("calls %s, which is not translated", c)
		}
	}
	var params []string
	if l.fd.Recv != nil && len(l.fd.Recv.List) == 1 {
		r := l.fd.Recv.List[0]
		rt := l.info.TypeOf(r.Type)
		s := derefT(rt).String()
		if strings.HasSuffix(s, "graph.Node") || strings.HasSuffix(s, "graph.Edge") || strings.HasSuffix(s, "graph.Layer") {
			params = append(params, fmt.Sprintf("(%s_ : %s)", r.Names[0].Name, t.leanType(rt)))
		} else if len(r.Names) == 1 {
			t.recv = r.Names[0].Name
		}
	}
	for _, p := range l.fd.Type.Params.List {
		for _, n := range p.Names {
			params = append(params, fmt.Sprintf("(%s_ : %s)", n.Name, t.leanType(l.info.TypeOf(p.Type))))
		}
	}
	var rts []string
	if l.fd.Type.Results != nil {
		for _, r := range l.fd.Type.Results.List {
			k := len(r.Names)
			if k == 0 {
				k = 1
			}
			for i := 0; i < k; i++ {
				rts = append(rts, t.leanType(l.info.TypeOf(r.Type)))
			}
		}
	}
	if len(rts) == 0 {
		bad("no result")
	}
	rt := rts[0]
	if len(rts) > 1 {
		rt = "(" + strings.Join(rts, " × ") + ")"
	}
	body := t.stmts(l.fd.Body.List, "  ")
	var rps []string
	for _, f := range t.recvOrd {
		rps = append(rps, fmt.Sprintf("(%s_%s : %s)", t.recv, f, t.recvFlds[f]))
	}
	params = append(rps, params...)
	if t.monadic {
		return fmt.Sprintf("/-- %s.%s -/\ndef %s %s : Option %s := do\n  %s\n", l.pk, l.fn, l.name, strings.Join(params, " "), paren(rt), body), ""
	}
	return fmt.Sprintf("/-- %s.%s -/\ndef %s %s : %s :=\n  %s\n", l.pk, l.fn, l.name, strings.Join(params, " "), rt, body), ""
}
