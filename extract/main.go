// Command extract walks the non-test sources of the module in /repo (go/parser + go/types, stdlib only)
// and prints Autog/Generated/Facts.lean: lists of syntactic/type facts the Lean proofs and models were
// written against. Facts are keyed by package and function (never by line number), so unrelated edits do not
// move them; bodies that matter are identified by a hash of their normalised source text.
package main

import (
	"bytes"
	"crypto/sha1"
	"fmt"
	"go/ast"
	"go/build"
	"go/importer"
	"go/parser"
	"go/printer"
	"go/token"
	"go/types"
	"os"
	"path/filepath"
	"sort"
	"strings"
)

const modPath = "github.com/nulab/autog"

var (
	root  = "/repo"
	fset  = token.NewFileSet()
	pkgs  = map[string]*types.Package{}
	infos = map[string]*types.Info{}
	files = map[string][]*ast.File{}
	std   types.Importer
)

type imp struct{}

func (imp) Import(path string) (*types.Package, error) {
	if strings.HasPrefix(path, modPath) {
		return load(path)
	}
	return std.Import(path)
}

func load(path string) (*types.Package, error) {
	if p, ok := pkgs[path]; ok {
		return p, nil
	}
	dir := filepath.Join(root, strings.TrimPrefix(path, modPath))
	ents, err := os.ReadDir(dir)
	if err != nil {
		return nil, err
	}
	var fs []*ast.File
	ctx := build.Default
	ctx.BuildTags = nil // guard off: the facts are about the code users run
	for _, e := range ents {
		n := e.Name()
		if e.IsDir() || !strings.HasSuffix(n, ".go") || strings.HasSuffix(n, "_test.go") {
			continue
		}
		if ok, _ := ctx.MatchFile(dir, n); !ok {
			continue
		}
		f, err := parser.ParseFile(fset, filepath.Join(dir, n), nil, parser.ParseComments)
		if err != nil {
			return nil, err
		}
		fs = append(fs, f)
	}
	info := &types.Info{Types: map[ast.Expr]types.TypeAndValue{}, Uses: map[*ast.Ident]types.Object{}, Defs: map[*ast.Ident]types.Object{}, Selections: map[*ast.SelectorExpr]*types.Selection{}}
	conf := types.Config{Importer: imp{}, Error: func(err error) {}}
	p, err := conf.Check(path, fset, fs, info)
	if err != nil {
		return nil, fmt.Errorf("type-check %s: %v", path, err)
	}
	pkgs[path] = p
	infos[path] = info
	files[path] = fs
	return p, nil
}

func src(n ast.Node) string {
	var b bytes.Buffer
	printer.Fprint(&b, fset, n)
	return strings.Join(strings.Fields(b.String()), " ")
}

func hash(n ast.Node) string {
	h := sha1.Sum([]byte(src(n)))
	return fmt.Sprintf("%x", h[:4])
}

type facts map[string][]string

func (f facts) add(k, v string) { f[k] = append(f[k], v) }

func short(path string) string {
	s := strings.TrimPrefix(strings.TrimPrefix(path, modPath), "/")
	if s == "" {
		return "autog"
	}
	return s
}

func main() {
	if len(os.Args) > 1 {
		root = os.Args[1]
	}
	std = importer.ForCompiler(fset, "source", nil)
	var paths []string
	filepath.Walk(root, func(p string, fi os.FileInfo, err error) error {
		if err != nil {
			return nil
		}
		if fi.IsDir() {
			if strings.HasPrefix(fi.Name(), ".") && p != root {
				return filepath.SkipDir
			}
			if fi.Name() == "testfiles" || fi.Name() == "cmd" {
				return filepath.SkipDir
			}
			ents, _ := os.ReadDir(p)
			for _, e := range ents {
				if strings.HasSuffix(e.Name(), ".go") && !strings.HasSuffix(e.Name(), "_test.go") {
					rel, _ := filepath.Rel(root, p)
					ip := modPath
					if rel != "." {
						ip += "/" + filepath.ToSlash(rel)
					}
					paths = append(paths, ip)
					break
				}
			}
		}
		return nil
	})
	sort.Strings(paths)
	for _, p := range paths {
		if _, err := load(p); err != nil {
			fmt.Fprintln(os.Stderr, "extract:", err)
			os.Exit(1)
		}
	}
	F := facts{}
	for _, path := range paths {
		analyse(path, F)
	}
	emit(F)
	if len(os.Args) > 2 {
		if err := os.WriteFile(os.Args[2], []byte(translateAll()), 0o644); err != nil {
			fmt.Fprintln(os.Stderr, "extract:", err)
			os.Exit(1)
		}
	}
}

func isPkgVar(o types.Object) bool {
	v, ok := o.(*types.Var)
	return ok && !v.IsField() && v.Parent() == v.Pkg().Scope()
}

// baseIdent returns the identifier an lvalue expression is rooted at
func baseIdent(e ast.Expr) *ast.Ident {
	for {
		switch t := e.(type) {
		case *ast.Ident:
			return t
		case *ast.SelectorExpr:
			e = t.X
		case *ast.IndexExpr:
			e = t.X
		case *ast.StarExpr:
			e = t.X
		case *ast.ParenExpr:
			e = t.X
		case *ast.SliceExpr:
			e = t.X
		default:
			return nil
		}
	}
}

func isNodePtr(t types.Type) bool {
	s := t.String()
	return strings.HasSuffix(s, "internal/graph.Node") || strings.HasSuffix(s, "graph.Node")
}

var topoFields = map[string]bool{"From": true, "To": true, "In": true, "Out": true, "IsReversed": true, "IsVirtual": true,
	"W": true, "H": true, "Nodes": true, "Edges": true, "Size": true}

func analyse(path string, F facts) {
	info := infos[path]
	pk := short(path)
	for _, f := range files[path] {
		for _, im := range f.Imports {
			p := strings.Trim(im.Path.Value, `"`)
			switch p {
			case "unsafe", "reflect", "C", "math/rand", "time", "sync", "sync/atomic", "os", "runtime":
				F.add("imports", pk+"/"+filepath.Base(fset.File(f.Pos()).Name())+": "+p)
			}
		}
		for _, d := range f.Decls {
			switch t := d.(type) {
			case *ast.GenDecl:
				if t.Tok == token.CONST && pk == "internal/geom" {
					F.add("geomBodies", pk+" const #"+hash(t))
				}
				if t.Tok == token.VAR {
					for _, s := range t.Specs {
						for _, n := range s.(*ast.ValueSpec).Names {
							F.add("globals", pk+"."+n.Name)
						}
					}
				}
			case *ast.FuncDecl:
				fn := t.Name.Name
				if t.Recv != nil && len(t.Recv.List) > 0 {
					fn = strings.TrimPrefix(src(t.Recv.List[0].Type), "*") + "." + fn
				}
				if t.Name.Name == "init" && t.Recv == nil {
					F.add("inits", pk+".init")
				}
				if t.Body == nil {
					continue
				}
				// code that has NO exact model (the numerical geometry behind the Splines router, and the deque it uses):
				// the sampled validation of C19/C20 was run against exactly these bodies
				if (pk == "internal/geom" || pk == "internal/collectors") && !strings.HasSuffix(fn, ".SVG") &&
					!strings.HasSuffix(fn, ".String") && !strings.Contains(fn, "tack") && fn != "NewMat" {
					F.add("geomBodies", pk+"."+fn+" #"+hash(t))
				}
				analyseFunc(pk, fn, t, info, F)
			}
		}
	}
}

func analyseFunc(pk, fn string, fd *ast.FuncDecl, info *types.Info, F facts) {
	where := pk + "." + fn
	// the calls a function of the modelled code makes into the module, in source order: the skeleton the transliterated
	// model functions follow (an added, dropped or moved pass shows here even when it changes the result on one input in 40000)
	if pk != "internal/geom" && pk != "internal/collectors" && pk != "internal/monitor" && pk != "graph" &&
		!strings.HasSuffix(fn, ".String") && !strings.HasSuffix(fn, ".SVG") {
		var calls []string
		ast.Inspect(fd.Body, func(n ast.Node) bool {
			c, ok := n.(*ast.CallExpr)
			if !ok {
				return true
			}
			var id *ast.Ident
			switch f := c.Fun.(type) {
			case *ast.Ident:
				id = f
			case *ast.SelectorExpr:
				id = f.Sel
			case *ast.IndexExpr: // generic instantiation
				switch g := f.X.(type) {
				case *ast.Ident:
					id = g
				case *ast.SelectorExpr:
					id = g.Sel
				}
			}
			if id != nil {
				if o, ok := info.Uses[id].(*types.Func); ok && o.Pkg() != nil && strings.HasPrefix(o.Pkg().Path(), modPath) {
					if o.Pkg().Path() != modPath+"/internal/monitor" {
						calls = append(calls, o.Name())
					}
				}
			}
			return true
		})
		if len(calls) > 0 {
			F.add("callSeqs", where+": "+strings.Join(calls, " "))
		}
	}
	selfObj := info.Defs[fd.Name]
	lhsWrite := func(e ast.Expr, how string) {
		if id := baseIdent(e); id != nil {
			if o := info.Uses[id]; o != nil && isPkgVar(o) {
				F.add("globalWrites", where+": "+how+" "+o.Pkg().Name()+"."+o.Name())
			}
		}
		if se, ok := e.(*ast.SelectorExpr); ok && topoFields[se.Sel.Name] {
			if sel := info.Selections[se]; sel != nil && sel.Kind() == types.FieldVal {
				recv := sel.Recv().String()
				if strings.Contains(recv, "internal/graph.") {
					F.add("topoWrites", where+": ."+se.Sel.Name)
				}
			}
		}
	}
	// constant expressions of floating-point type other than plain float literals (an integer literal or a named constant
	// used as a float: `x / 2`, `float64(math.MaxInt32)`, `math.MaxFloat64`), maximal ones only — phases 4, 5 and the top level
	if pk == "internal/phase4" || pk == "internal/phase5" || pk == "autog" {
		ast.Inspect(fd.Body, func(n ast.Node) bool {
			e, ok := n.(ast.Expr)
			if !ok {
				return true
			}
			tv, ok := info.Types[e]
			if !ok || tv.Value == nil {
				return true
			}
			if b, ok := tv.Type.Underlying().(*types.Basic); ok && b.Info()&types.IsFloat != 0 {
				if l, isLit := e.(*ast.BasicLit); !(isLit && l.Kind == token.FLOAT) {
					F.add("floatConsts", where+": "+src(e))
				}
			}
			return false
		})
	}
	ast.Inspect(fd.Body, func(n ast.Node) bool {
		switch t := n.(type) {
		case *ast.AssignStmt:
			if t.Tok != token.DEFINE {
				for _, l := range t.Lhs {
					lhsWrite(l, "assign")
				}
			}
		case *ast.IncDecStmt:
			lhsWrite(t.X, "incdec")
		case *ast.UnaryExpr:
			if t.Op == token.AND {
				if id := baseIdent(t.X); id != nil {
					if o := info.Uses[id]; o != nil && isPkgVar(o) {
						F.add("globalWrites", where+": addr "+o.Pkg().Name()+"."+o.Name())
					}
				}
			}
			if t.Op == token.ARROW {
				F.add("nondet", where+": chan-recv")
			}
		case *ast.SendStmt:
			F.add("nondet", where+": chan-send")
		case *ast.GoStmt:
			F.add("nondet", where+": go")
		case *ast.SelectStmt:
			F.add("nondet", where+": select")
		case *ast.RangeStmt:
			if tv, ok := info.Types[t.X]; ok {
				if _, isMap := tv.Type.Underlying().(*types.Map); isMap {
					F.add("mapRanges", where+": range "+src(t.X)+" #"+hash(t.Body))
				}
				if _, isChan := tv.Type.Underlying().(*types.Chan); isChan {
					F.add("nondet", where+": range-chan")
				}
			}
		case *ast.ForStmt:
			if t.Post == nil && t.Init == nil {
				c := "true"
				if t.Cond != nil {
					c = src(t.Cond)
				}
				F.add("unboundedLoops", where+": for "+c)
			}
		case *ast.CallExpr:
			switch f := t.Fun.(type) {
			case *ast.Ident:
				if f.Name == "panic" {
					if _, isBuiltin := info.Uses[f].(*types.Builtin); isBuiltin {
						F.add("panics", where)
					}
				}
				if o := info.Uses[f]; o != nil && o == selfObj {
					F.add("recursive", where)
				}
				// conversions int <-> float in phases 4, 5 and the top level
				if tv, ok := info.Types[t.Fun]; ok && tv.IsType() && len(t.Args) == 1 {
					if b, ok := tv.Type.Underlying().(*types.Basic); ok && (b.Info()&(types.IsFloat|types.IsInteger)) != 0 {
						if at, ok := info.Types[t.Args[0]]; ok {
							if ab, ok := at.Type.Underlying().(*types.Basic); ok && at.Value == nil {
								if (b.Info()&types.IsFloat != 0) != (ab.Info()&types.IsFloat != 0) {
									F.add("numConversions", where+": "+src(t))
								}
							}
						}
					}
				}
			case *ast.SelectorExpr:
				if o := info.Uses[f.Sel]; o != nil && o == selfObj {
					F.add("recursive", where)
				}
				if o, ok := info.Uses[f.Sel].(*types.Func); ok && o.Pkg() != nil {
					full := o.Pkg().Path() + "." + o.Name()
					switch {
					case full == "sort.Slice" || full == "sort.Ints" || full == "sort.Float64s" || full == "sort.SliceStable" ||
						strings.HasPrefix(full, "slices.Sort"):
						F.add("sorts", where+": "+full)
					case strings.HasPrefix(full, "time.") || strings.HasPrefix(full, "math/rand."):
						F.add("nondet", where+": "+full)
					case full == "maps.Copy" || full == "maps.Clone" || full == "maps.Keys" || full == "maps.Values" || full == "maps.All":
						F.add("mapCalls", where+": "+full)
					case o.Name() == "Keys" && strings.Contains(full, "internal/graph"):
						F.add("mapCalls", where+": Keys")
					case strings.HasSuffix(o.Pkg().Path(), "internal/monitor"):
						F.add("monitorCalls", where+": "+o.Name())
					}
				}
			}
		case *ast.SelectorExpr:
			if t.Sel.Name == "ID" {
				if sel := info.Selections[t]; sel != nil && sel.Kind() == types.FieldVal && isNodePtr(derefT(sel.Recv())) {
					F.add("idReads", where)
				}
			}
			// every mention of the direction flags of an edge (read or written): where the code distinguishes reversed edges
			if t.Sel.Name == "IsReversed" || t.Sel.Name == "ArrowHeadStart" {
				if sel := info.Selections[t]; sel != nil && sel.Kind() == types.FieldVal {
					F.add("flagUses", where+": ."+t.Sel.Name)
				}
			}
			if pk == "internal/phase1" || pk == "internal/phase2" || pk == "internal/phase3" {
				switch t.Sel.Name {
				case "W", "H", "X", "Y", "NodeSpacing", "LayerSpacing":
					if sel := info.Selections[t]; sel != nil && sel.Kind() == types.FieldVal {
						F.add("sizeReadsPhases123", where+": ."+t.Sel.Name)
					}
				}
			}
		case *ast.BasicLit:
			if t.Kind == token.FLOAT && (pk == "internal/phase4" || pk == "internal/phase5" || pk == "autog") {
				F.add("floatLits", where+": "+t.Value)
			}
		case *ast.MapType:
			if tv, ok := info.Types[t.Key]; ok {
				if b, ok := tv.Type.Underlying().(*types.Basic); ok && b.Kind() == types.String {
					F.add("stringKeyedMaps", where+": "+src(t))
				}
			}
		}
		return true
	})
	// the statements of Layout up to and including the deferred Reset (C18: Reset is deferred right after Set)
	if pk == "autog" && fn == "Layout" {
		prev := -2
		for i, s := range fd.Body.List {
			txt := src(s)
			if strings.Contains(txt, "imonitor.") || strings.HasPrefix(txt, "defer") {
				if i == prev+1 {
					F.add("layoutMonitorStmts", "immediately followed by")
				}
				F.add("layoutMonitorStmts", txt)
				prev = i
			}
		}
	}
}

func derefT(t types.Type) types.Type {
	if p, ok := t.(*types.Pointer); ok {
		return p.Elem()
	}
	return t
}

func leanStr(s string) string {
	s = strings.ReplaceAll(s, `\`, `\\`)
	s = strings.ReplaceAll(s, `"`, `\"`)
	return `"` + s + `"`
}

func emit(F facts) {
	keys := []string{"globals", "globalWrites", "inits", "imports", "mapRanges", "mapCalls", "nondet", "sorts", "panics",
		"unboundedLoops", "recursive", "idReads", "stringKeyedMaps", "topoWrites", "sizeReadsPhases123", "floatLits", "floatConsts", "flagUses",
		"numConversions", "monitorCalls", "layoutMonitorStmts", "geomBodies", "callSeqs"}
	var b strings.Builder
	b.WriteString("/-! GENERATED by /verif/extract from /repo's working tree on every check run. Do not edit. -/\n\nnamespace Autog.Facts\n\n")
	for _, k := range keys {
		vs := F[k]
		if k != "layoutMonitorStmts" {
			sort.Strings(vs)
		}
		b.WriteString("def " + k + " : List String := [\n")
		for i, v := range vs {
			b.WriteString("  " + leanStr(v))
			if i+1 < len(vs) {
				b.WriteString(",")
			}
			b.WriteString("\n")
		}
		b.WriteString("]\n\n")
	}
	b.WriteString("end Autog.Facts\n")
	fmt.Print(b.String())
}
