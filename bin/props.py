"""Per-property configuration of bin/check: which fact groups, correspondence keys (T:...), predicate keys and
harness suites decide each property. suites = (name, cases in quick tier, cases in thorough tier)."""

TRUSTED_BASE = [
    'Lean 4.33 kernel (thorough tier: re-checked by leanchecker); axioms limited to propext, Classical.choice, Quot.sound (audited per theorem on every run)',
    'the hand-written Lean models are tied to /repo only by the correspondence suites (model vs real code on the same inputs, exact comparison) and the regenerated fact lists',
    'Lean compiler/runtime of the driver executable, Go compiler/runtime, the harness, generators and canonical printers in /verif/harness',
    'float64 arithmetic is modelled by exact rationals: inputs are dyadic so that the modelled operations are exact in binary64; rounding, overflow and NaN behaviour on other inputs are modelled, not verified',
]

E2E = ('e2e', 1500, 40000)

PROPS = {
    'C01': dict(
        facts=['Totality', 'Calls', 'Translated'], keys=['C01'], tkeys=['T:pre', 'T:phase1', 'T:phase2-longestpath', 'T:layers', 'T:phase5', 'T:post', 'T:output', 'T:break', 'K:ordered', 'T:crossings', 'T:phase4-valign', 'T:phase4-packright', 'T:phase4-sinkcoloring', 'T:assignY', 'K:layersWF', 'K:sc-blockwidth', 'T:phase2-ns', 'T:ns-pivots', 'T:phase4-ns', 'T:phase3-wmedian', 'T:wmedian-logged', 'T:pipeline', 'K:edgesWF', 'K:adj', 'T:phase4-bk', 'K:breakWF', 'T:phase4-noop'],
        more=['C01Chain'],
        suites=[('e2e', 2500, 60000), ('e2e-rand', 500, 10000), ('c12-deep', 4, 40), ('c01-paths', 16, 300), ('e2e-splines', 60, 3000), ('e2e-dec', 600, 20000), ('e2e-big', 8, 100), ('e2e-huge', 8, 100), ('e2e-wide', 2, 12)],
        partial=['C01_full: per-phase totality lemmas are proved on the algorithmic cores only (cycle test, greedy ranking, Kahn init, DFS components); WMedian, Brandes-Koepf, SinkColoring convergence, simplex pivots and Splines are covered by the watchdogged runs only'],
        assumptions=['heap, wall-clock and stack limits are observed by the worker watchdog, not proved']),
    'C02': dict(facts=['Topo', 'Calls', 'Translated'], more=['Oracles'], keys=['C02'], tkeys=['T:pre', 'T:phase1', 'T:phase5', 'T:post', 'T:output', 'T:break', 'T:phase4-noop', 'T:pipeline'], suites=[('e2e', 2500, 60000), ('c04', 500, 10000), ('e2e-big', 8, 100), ('e2e-dec', 400, 8000)], partial=[]),
    'C03': dict(facts=['Calls', 'Numbers', 'Topo', 'Translated'], more=['C01Chain'], keys=['C03'], tkeys=['T:phase2-longestpath', 'T:layers', 'T:assignY', 'T:phase4-valign', 'T:phase4-packright', 'T:post', 'T:output', 'T:break', 'T:phase4-sinkcoloring', 'K:layersWF', 'T:phase2-ns', 'T:phase4-ns', 'T:phase4-bk'], suites=[('c03', 2500, 60000), ('e2e', 500, 10000), ('e2e-big', 8, 100)], partial=[]),
    'C04': dict(facts=['Calls', 'Numbers', 'Translated'], more=['Oracles', 'C01Chain'], keys=['C04', 'C09side'], tkeys=['T:phase4-valign', 'T:phase4-packright', 'T:output', 'T:phase4-sinkcoloring', 'K:layersWF', 'K:sc-blockwidth', 'K:layered', 'T:phase4-ns'], suites=[('c04', 2500, 60000), ('e2e', 500, 10000), ('e2e-big', 8, 100)], partial=[]),
    'C05': dict(facts=['Calls', 'Numbers', 'Translated'], keys=['C05'], tkeys=['T:phase5', 'T:post', 'T:output', 'T:break'], suites=[('c05', 2500, 60000), ('e2e-splines', 40, 3000), ('e2e', 500, 10000), ('e2e-big', 8, 100), ('e2e-huge', 8, 100), ('e2e-wide', 2, 12)], partial=[]),
    'C06': dict(facts=['Calls', 'Numbers', 'Translated'], keys=['C06'], tkeys=['T:phase5', 'T:output', 'T:break'], suites=[('c06', 2500, 60000), ('e2e', 500, 10000), ('e2e-big', 8, 100)], partial=[]),
    'C07': dict(facts=['Maps', 'Shared', 'Calls'], keys=['C07rep', 'C07input', 'C07fresh'], tkeys=['T:phase2-ns', 'T:phase4-sinkcoloring'], suites=[('e2e', 2500, 60000), ('e2e-big', 8, 100), ('e2e-dec', 400, 8000)],
                fresh_process=True, partial=[]),
    'C08': dict(facts=['Ids', 'Calls'], keys=['C08'], tkeys=['T:pre', 'T:break', 'T:phase4-ns', 'T:output'], suites=[('rename', 2000, 50000), ('e2e', 600, 10000)], partial=[]),
    'C09': dict(facts=['Shared', 'Calls'], keys=['C09', 'C09side'],
                tkeys=['T:pre', 'T:output', 'T:phase5', 'T:post', 'T:phase2-ns', 'T:ns-pivots', 'K:c09-pre'],
                suites=[('union', 1500, 40000), ('union-dec', 600, 15000), ('union-many', 8, 100), ('union-big', 8, 100), ('e2e', 800, 10000)], partial=[]),
    'C10': dict(facts=['Calls', 'Translated'], keys=['C10'], tkeys=['K:ns-certificate', 'K:ns-contiguity-hyp', 'T:layers', 'T:phase2-ns', 'T:ns-pivots'], suites=[('c10', 4000, 80000), ('c10-big', 12, 200), ('c10-mid', 24, 600)], partial=[]),
    'C11': dict(facts=['Calls'], keys=['C11'], tkeys=['T:phase2-longestpath', 'T:layers'], suites=[('c11', 2000, 50000), ('c11-deep', 8, 120)], partial=[]),
    'C12': dict(facts=['Calls', 'Translated'], more=['C01Chain'], keys=['C12'], tkeys=['T:phase3-wmedian', 'T:wmedian-logged', 'T:crossings', 'K:ordered', 'T:break', 'T:phase4-sinkcoloring', 'T:phase4-valign', 'T:phase4-packright', 'T:phase5', 'T:output', 'T:phase4-ns'], suites=[('c12', 2000, 50000), ('c12-deep', 6, 60), ('e2e-big', 8, 100), ('c12-wide', 4, 40)], partial=[]),
    'C13': dict(facts=['Calls', 'Translated'], keys=['C13'],
                tkeys=['T:crossings', 'K:ordered', 'T:break', 'T:phase3-wmedian', 'T:wmedian-logged', 'T:phase4-sinkcoloring',
                       'T:phase4-valign', 'T:phase4-packright', 'T:phase4-ns', 'T:phase5', 'T:output'],
                suites=[('c13', 2000, 50000), ('c13-big', 12, 200)], partial=[]),
    'C14': dict(facts=['Calls'], keys=['C14', 'C14acyclic'], tkeys=['T:phase1', 'K:adj'], suites=[('c14', 2500, 60000), ('c14-deep', 12, 200)], partial=[]),
    'C15': dict(facts=['Shared'], keys=['C15conc'], race_suites=['concurrent'], tkeys=['T:monitor'], suites=[('concurrent', 40, 600), ('monitor', 1000, 20000)], partial=[]),
    'C16': dict(facts=['Calls', 'Numbers'], keys=['C16'], tkeys=['T:phase4-valign', 'T:phase4-packright', 'T:output', 'K:layersWF', 'T:pre'], suites=[('c16', 2500, 60000), ('e2e-big', 8, 100)], partial=[]),
    'C17': dict(facts=['Numbers', 'Calls', 'Translated'], keys=['C17'], tkeys=['T:phase4-valign', 'T:phase4-packright', 'T:phase4-sinkcoloring', 'T:assignY', 'T:phase5', 'T:output', 'T:phase4-bk', 'T:pipeline-sizes'], suites=[('scale', 2000, 50000), ('e2e', 800, 10000)], partial=[]),
    'C18': dict(facts=['Shared'], keys=['C18own', 'C18same', 'C18nonvacuous'], tkeys=['T:monitor'],
                suites=[('history', 1500, 30000), ('monitor', 1000, 20000), ('e2e', 1000, 30000), ('c18bk', 1500, 30000), ('e2e-dec', 400, 8000)], partial=[]),
    'C19': dict(facts=['Geom', 'TranslatedGeom'], keys=['C19'], tkeys=[], suites=[('c19', 3000, 100000), ('c19-a', 2000, 100000), ('c19-long', 300, 6000)],
                partial=['C19_shortest: that the returned path is shortest is decided per run by an independent search (visibility-graph Dijkstra) whose result the driver re-validates exactly (containment checker, certified square-root bounds); no theorem says the funnel algorithm is correct']),
    'C20': dict(facts=['Geom', 'TranslatedGeom'], keys=['C20', 'C20roots'], tkeys=['K:c20-contained'], suites=[('c20', 1500, 40000), ('c20-shape', 1500, 30000), ('solve', 3000, 100000)],
                partial=['C20_termination: termination of FitSpline/tryfit is observed under a watchdog only', 'C20_roots: the root finder is checked against exactly validated ground truth, not proved']),
}
