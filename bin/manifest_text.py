"""Texts of MANIFEST.json (what each check claims). Kept next to props.py; bin/mkmanifest assembles the file."""

COMMON_NOTE = ('Trusted: Lean kernel and the axioms propext/Classical.choice/Quot.sound; the hand transliteration Go->Lean, validated by the '
               'correspondence suites (model vs real code, exact comparison on dyadic inputs) and the regenerated fact lists; the harness, '
               'generators and driver; binary64 rounding is modelled by exact rationals, not verified.')

def T(text, ref, technique='Lean 4 theorems over a model + differential correspondence with the real code + regenerated source facts', note=COMMON_NOTE):
    return {'text': text, 'design_ref': ref, 'technique': technique, 'note': note}

TEXT = {
 'C01': T('PARTIAL proof. Proved for all inputs on the models: completeness/soundness of the cycle test, every-node-ranked-once for the greedy breaker under any pick oracle, Kahn initialisation on DAGs, DFS component closure, longest-path totality; panic sites / unbounded loops / recursive functions of /repo are pinned by regenerated facts. Termination of WMedian, Brandes-Koepf, the simplex pivots and the Splines router is not proved: it is observed in watchdogged worker processes on the whole option grid. Splines routing is a listed known finding.', 'DESIGN.md §5 C01'),
 'C02': T('Proof on the topology model (Populate, components, self-loop strip/restore, Reverse, break/merge of long edges, output filter) that nodes, edge multiset, directions and sizes are preserved; tie: phase-boundary correspondence of those functions, frame facts (which functions write topology fields), and the multiset/size predicates on real outputs.', 'DESIGN.md §5 C02'),
 'C03': T('Proof: assignYCoords bands for any layer list, LongestPath heights strictly decrease along edges, Kahn initialisation and tight-tree shifts keep feasibility; the simplex pivot/balance steps are covered by the feasibility contract evaluated on every traced run (partial). Predicates on real outputs.', 'DESIGN.md §5 C03'),
 'C04': T('Proof per size-aware positioner on the Rat model: left-to-right placement is exactly spaced (VAlign, PackRight), a quiet SinkColoring sweep certifies separation of every adjacent pair, component shift separates extents; NetworkSimplex positioner via the feasibility contract of its auxiliary graph (partial). Predicates on real outputs incl. helper nodes.', 'DESIGN.md §5 C04'),
 'C05': T('Proof on the merge/router models that a route starts at the bottom centre of the upper end and ends at the top centre of the lower end and that ArrowHeadStart = IsReversed marks the target; Splines end points by predicate only (partial).', 'DESIGN.md §5 C05'),
 'C06': T('Proof on the router models: Straight 2 points, Polyline one bend per intermediate band at the helper centre, Ortho axis-parallel segments; spline piece structure by predicate only (partial).', 'DESIGN.md §5 C06'),
 'C07': T('Proof that every remaining map-range body of /repo is order independent (List.Perm induction) + regenerated facts pinning the list of map ranges (with body hashes), map helper calls, sorts, time/rand/goroutine/channel uses; repeated in-process calls and fresh-process runs are compared byte-wise as search.', 'DESIGN.md §5 C07'),
 'C08': T('Proof: Populate commutes with every injective renaming; regenerated facts pin every read of Node.ID and every string-keyed map; search compares Layout(G) with Layout(rho G) for adversarial rho.', 'DESIGN.md §5 C08'),
 'C09': T('Proof on the components model (DFS closure = connectivity class, original order kept) and the shift loop; search compares the layout of a union with the layouts of its components.', 'DESIGN.md §5 C09'),
 'C10': T('PARTIAL proof: weak duality and soundness of the optimality-certificate checker are proved for all graphs; that the simplex loop ends with such a certificate is checked per run (the cut values of the final tree are validated by the Lean checker against the returned layering), not proved.', 'DESIGN.md §5 C10'),
 'C11': T('Proof on the LongestPath machine: the memoised traversal computes height = 1 + max successor height, so no path is longer than the height and one attains it; tie: exact correspondence of layers on traced runs; predicate on real outputs.', 'DESIGN.md §5 C11'),
 'C12': T('Proof: the bilayer crossing counter (radix scan + accumulator tree) returns exactly the number of inverted pairs for every duplicate-free bilayer edge set; tie: exact correspondence of countCrossings on constructed and traced bilayers; search: logged count vs crossings recomputed from output coordinates. That WMedian restores exactly the order whose count it logs is checked per run (partial).', 'DESIGN.md §5 C12'),
 'C13': T('PARTIAL proof: pre-order level lists of a rooted tree are crossing free for any positions increasing along the lists; the bridge to initPositions and to both layerers is checked per run (logged crossings 0 and crossings recomputed from the drawing).', 'DESIGN.md §5 C13'),
 'C14': T('Proof on the DFS breaker machine: every marked edge closes a cycle with unmarked tree edges (minimal feedback arc set), and the cycle test answers true only if a closed walk exists, so acyclic inputs are returned untouched; tie: correspondence of phase 1 on traced runs; search on real outputs.', 'DESIGN.md §5 C14'),
 'C15': T('Proof on the monitor state machine that no operation of a monitor-less call writes shared state under any interleaving; regenerated facts pin all package-level variables and every write to them; the monitor package is tied to the machine by scripted sequences; concurrent runs (also -race in the thorough tier) are search only.', 'DESIGN.md §5 C15'),
 'C16': T('Proof on the Rat model: exact extent, centring (VAlign), right alignment (PackRight), leftmost x = 0; tie: exact correspondence of both positioners on traced runs; predicates on real outputs with helper nodes visible.', 'DESIGN.md §5 C16'),
 'C17': T('Proof of scale equivariance of the placement/Y/extent functions for every positive factor; Brandes-Koepf by facts (float literals, conversions) and exact comparison at 2^k (partial).', 'DESIGN.md §5 C17'),
 'C18': T('Proof on the monitor state machine: in any history every event goes to the monitor of the running call and the state is clean after each call, also when the body is cut short by a panic; facts pin that Reset is deferred immediately after Set; tie: scripted sequences on the real monitor package and call histories.', 'DESIGN.md §5 C18'),
 'C19': T('PARTIAL: verified containment checker; see DESIGN.md.', 'DESIGN.md §5 C19'),
 'C20': T('PARTIAL: Bezier hull; see DESIGN.md.', 'DESIGN.md §5 C20'),
}

NOT_APPLICABLE = {
 'C19': 'check under construction in this round (the containment checker and its soundness theorem exist; harness op and known findings not wired yet)',
 'C20': 'check under construction in this round (hull theorem exists; harness op not wired yet)',
}

NOTES = ('All checks are `bin/check <id>`; every run regenerates the fact lists from /repo, rebuilds the Lean obligations of the property, '
         'rebuilds the harness from /repo\'s working tree (overlay, tag verif) and runs the suites. Known findings: known_findings.json.')
