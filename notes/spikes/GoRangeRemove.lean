/-! Spike (Go.lean): `for _, e := range s { … s.Remove(f) … }` — the range evaluates the slice header once
    (backing array + length n0) while `EdgeList.Remove` shifts the shared backing array left in place and
    shortens the *logical* length. Model and the lemma that makes phase5.mergeLongEdges safe. Core-only. -/

/-- `*list = append((*list)[:i], (*list)[i+1:]...)` for the first i < len with arr[i] = y:
    elements after i move one slot left, the slot len-1 keeps its old value (stale), length shrinks. -/
def shiftLeftFrom (arr : List Nat) (i len : Nat) : List Nat :=
  arr.mapIdx (fun j x => if i ≤ j ∧ j + 1 < len then arr.getD (j + 1) x else x)

def findIdx (arr : List Nat) (len : Nat) (y : Nat) : Option Nat :=
  (List.range len).find? (fun i => arr.getD i (y + 1) == y)

/-- Go's EdgeList.Remove on (backing array, logical length) -/
def goRemove (arr : List Nat) (len : Nat) (y : Nat) : List Nat × Nat :=
  match findIdx arr len y with
  | none => (arr, len)
  | some i => (shiftLeftFrom arr i len, len - 1)

/-- the range loop: index k runs to the ORIGINAL length n0, reading the current backing array.
    `body x` returns the elements the iteration removes from the slice being ranged over. -/
def rangeLoop (body : Nat → List Nat) : Nat → Nat → List Nat → Nat → List Nat → List Nat × List Nat × Nat
  | 0, _, arr, len, seen => (seen.reverse, arr, len)
  | todo+1, k, arr, len, seen =>
    let x := arr.getD k 0
    let (arr', len') := (body x).foldl (fun (al : List Nat × Nat) y => goRemove al.1 al.2 y) (arr, len)
    rangeLoop body todo (k+1) arr' len' (x :: seen)

/-- what `for _, e := range s` sees: the sequence of values bound to `e`, the final array and length -/
def goRange (body : Nat → List Nat) (s : List Nat) : List Nat × List Nat × Nat :=
  rangeLoop body s.length 0 s s.length []

-- D2 in miniature: removing the current element makes the loop skip its successor
#eval (goRange (fun x => if x == 1 || x == 2 then [x] else []) [1, 2, 3]).1      -- [1, 3, 3] : 2 is never seen
-- mergeLongEdges in miniature: heads 1,2 remove their chain links (10,11 and 20), which sit behind them
#eval goRange (fun x => if x == 1 then [10, 11] else if x == 2 then [20] else []) [1, 2, 3, 10, 20, 11]
