-- spike: VAlign x placement over Rat, adjacent separation
def placeFrom (pos sp : Rat) : List Rat → List Rat
  | [] => []
  | w :: ws => pos :: placeFrom (pos + w + sp) sp ws

def layerW (sp : Rat) : List Rat → Rat
  | [] => 0
  | [w] => w
  | w :: ws => w + sp + layerW sp ws

-- separation: consecutive xs differ by exactly w + sp
def Sepd (sp : Rat) : List Rat → List Rat → Prop
  | x :: y :: xs, w :: ws => y = x + w + sp ∧ Sepd sp (y :: xs) ws
  | _, _ => True

theorem placeFrom_sep (pos sp : Rat) (ws : List Rat) : Sepd sp (placeFrom pos sp ws) ws := by
  induction ws generalizing pos with
  | nil => simp [placeFrom, Sepd]
  | cons w ws ih =>
    cases ws with
    | nil => simp [placeFrom, Sepd]
    | cons w2 ws2 =>
      simp only [placeFrom, Sepd, true_and]
      have := ih (pos + w + sp)
      simpa [placeFrom] using this

theorem placeFrom_length (pos sp : Rat) (ws : List Rat) : (placeFrom pos sp ws).length = ws.length := by
  induction ws generalizing pos with
  | nil => rfl
  | cons w ws ih => simp [placeFrom, ih]

-- last right end = pos + layerW
def lastRight : List Rat → List Rat → Rat
  | [x], [w] => x + w
  | _ :: xs, _ :: ws => lastRight xs ws
  | _, _ => 0

theorem extent (pos sp : Rat) (w : Rat) (ws : List Rat) :
    lastRight (placeFrom pos sp (w :: ws)) (w :: ws) = pos + layerW sp (w :: ws) := by
  induction ws generalizing pos w with
  | nil => simp [placeFrom, lastRight, layerW]
  | cons w2 ws ih =>
    have := ih (pos + w + sp) w2
    simp only [placeFrom, lastRight, layerW] at this ⊢
    rw [this]; grind

example (a b : Rat) (h : 0 ≤ a) (h2 : a ≤ b) : 0 ≤ (b - a) / 2 := by grind
/-- scaling commutes with `max` for a positive factor (used by the C17 homogeneity lemmas) -/
theorem max_scale (a b c : Rat) (hc : 0 < c) : max (c*a) (c*b) = c * max a b := by
  rcases Rat.le_total (a := a) (b := b) with h | h
  · have h2 : c*a ≤ c*b := Rat.mul_le_mul_of_nonneg_left h (Rat.le_of_lt hc)
    simp [Rat.max_def, h, h2]
  · have h2 : c*b ≤ c*a := Rat.mul_le_mul_of_nonneg_left h (Rat.le_of_lt hc)
    grind

#print axioms extent
