package main

func opCountCross(c *Case) map[string]any { return map[string]any{"error": "todo"} }
func opShortest(c *Case) map[string]any   { return map[string]any{"error": "todo"} }
func opFitSpline(c *Case) map[string]any  { return map[string]any{"error": "todo"} }
func opSolve(c *Case) map[string]any      { return map[string]any{"error": "todo"} }
