package main

import (
	ig "github.com/nulab/autog/internal/graph"
)

// improveLayering searches for a layering of g that is feasible and strictly shorter than the current one.
// A layering is optimal iff no set S closed under tight edges can move by one band with a gain; the best such
// set is a maximum-weight closure (min cut). SEARCH ONLY: whatever is returned is re-validated by the Lean driver.
func improveLayering(g *ig.DGraph) []int {
	n := len(g.Nodes)
	idx := map[*ig.Node]int{}
	for i, v := range g.Nodes {
		idx[v] = i
	}
	type edge struct{ u, v, w, slack int }
	var es []edge
	for _, e := range g.Edges {
		if e.From == e.To {
			continue
		}
		es = append(es, edge{idx[e.From], idx[e.To], e.Weight, e.To.Layer - e.From.Layer - e.Delta})
	}
	for dir := 0; dir < 2; dir++ {
		// dir 0: move S down (+1): closed under tight out-edges, gain = sum(out weight - in weight)
		// dir 1: move S up (-1): closed under tight in-edges, gain = sum(in weight - out weight)
		b := make([]int, n)
		for _, e := range es {
			if dir == 0 {
				b[e.u] += e.w
				b[e.v] -= e.w
			} else {
				b[e.u] -= e.w
				b[e.v] += e.w
			}
		}
		N := n + 2
		s, t := n, n+1
		capm := make([][]int, N)
		for i := range capm {
			capm[i] = make([]int, N)
		}
		const inf = 1 << 30
		total := 0
		for v := 0; v < n; v++ {
			if b[v] > 0 {
				capm[s][v] += b[v]
				total += b[v]
			} else if b[v] < 0 {
				capm[v][t] += -b[v]
			}
		}
		for _, e := range es {
			if e.slack == 0 {
				if dir == 0 {
					capm[e.u][e.v] = inf
				} else {
					capm[e.v][e.u] = inf
				}
			}
		}
		// Edmonds-Karp on the small dense matrix
		flow := 0
		for {
			prev := make([]int, N)
			for i := range prev {
				prev[i] = -1
			}
			prev[s] = s
			q := []int{s}
			for len(q) > 0 && prev[t] < 0 {
				x := q[0]
				q = q[1:]
				for y := 0; y < N; y++ {
					if prev[y] < 0 && capm[x][y] > 0 {
						prev[y] = x
						q = append(q, y)
					}
				}
			}
			if prev[t] < 0 {
				// S = nodes reachable from s in the residual graph
				if total-flow > 0 {
					out := make([]int, n)
					for i, v := range g.Nodes {
						out[i] = v.Layer
						if prev[i] >= 0 {
							if dir == 0 {
								out[i]++
							} else {
								out[i]--
							}
						}
					}
					return out
				}
				break
			}
			f := inf
			for y := t; y != s; y = prev[y] {
				if capm[prev[y]][y] < f {
					f = capm[prev[y]][y]
				}
			}
			for y := t; y != s; y = prev[y] {
				capm[prev[y]][y] -= f
				capm[y][prev[y]] += f
			}
			flow += f
		}
	}
	return nil
}
