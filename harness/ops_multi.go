package main

import (
	"encoding/json"
	"fmt"
	"runtime"
	"sync"

	"github.com/nulab/autog"
	pg "github.com/nulab/autog/graph"
	imonitor "github.com/nulab/autog/internal/monitor"
	"github.com/nulab/autog/internal/phase1"
	"github.com/nulab/autog/internal/phase2"
)

// opMulti runs Layout on several related inputs (renaming, union of components, scaling); the driver
// checks the relation named in arg.rel between the results.
func opMulti(c *Case) map[string]any {
	outs := []any{}
	for i := range c.Runs {
		sub := &Case{ID: c.ID, Op: "layout", Cfg: c.Runs[i].Cfg, Edges: c.Runs[i].Edges}
		outs = append(outs, opLayout(sub))
	}
	return map[string]any{"outs": outs}
}

// opConcurrent: k goroutines call Layout at the same time on independent inputs (no monitor); every result
// must equal the result of the same call made alone.
func opConcurrent(c *Case) map[string]any {
	procs := 0
	if v, ok := c.Arg["gomaxprocs"].(float64); ok {
		procs = int(v)
	}
	if procs > 0 {
		defer runtime.GOMAXPROCS(runtime.GOMAXPROCS(procs))
	}
	rounds := 1
	if v, ok := c.Arg["rounds"].(float64); ok {
		rounds = int(v)
	}
	ref := make([]string, len(c.Runs))
	for i := range c.Runs {
		sub := &Case{Cfg: c.Runs[i].Cfg, Edges: c.Runs[i].Edges}
		r, _, _, _ := oneLayoutPlain(sub)
		ref[i] = r
	}
	bad := []any{}
	var mu sync.Mutex
	for round := 0; round < rounds; round++ {
		var wg sync.WaitGroup
		start := make(chan struct{})
		for i := range c.Runs {
			wg.Add(1)
			go func(i int) {
				defer wg.Done()
				sub := &Case{Cfg: c.Runs[i].Cfg, Edges: c.Runs[i].Edges}
				<-start
				r, _, _, _ := oneLayoutPlain(sub)
				// the randomised greedy breaker (P1 = 2) is non-deterministic by design: its calls are only watched by the race detector
				if c.Runs[i].Cfg.P1 != 2 && r != ref[i] {
					mu.Lock()
					bad = append(bad, i)
					mu.Unlock()
				}
			}(i)
		}
		close(start)
		wg.Wait()
	}
	return map[string]any{"calls": len(c.Runs) * rounds, "differ": bad}
}

// oneLayoutPlain: Layout without any hook or monitor installed (hooks write a package-level variable of
// the harness build, which would itself be shared state)
func oneLayoutPlain(c *Case) (res string, panicked bool, a, b any) {
	src := cloneEdges(c.Edges)
	cfg := *c.Cfg
	var sizes map[string]pg.Size
	if cfg.Sizes != nil {
		sizes = sizeMap(&cfg)
	}
	opts := buildOptions(&cfg, nil, sizes)
	defer func() {
		if e := recover(); e != nil {
			res = "panic: " + fmt.Sprint(e)
			panicked = true
		}
	}()
	out := autog.Layout(src, opts...)
	bs, _ := json.Marshal(serLayout(out))
	return string(bs), false, nil, nil
}

// opHistory: a sequence of Layout calls, each with its own monitor or none, some of which panic (empty
// graph, malformed edge). Every event is recorded as [monitor index, index of the call running when it
// was delivered]; results are recorded to compare calls with and without monitor.
func opHistory(c *Case) map[string]any {
	calls, _ := c.Arg["calls"].([]any)
	current := -1
	events := []any{}
	results := []any{}
	for i, ci := range calls {
		cm := ci.(map[string]any)
		kind, _ := cm["kind"].(string) // "ok" | "empty" | "malformed"
		withMon, _ := cm["mon"].(bool)
		run := int(cm["run"].(float64))
		var mon imonitor.Monitor
		if withMon {
			mi := i
			mon = imonitor.NewFunc(func(phase int, alg, key string, val any) {
				events = append(events, []any{mi, current, phase, alg, key})
			})
		}
		r := c.Runs[run]
		cfg := *r.Cfg
		var sizes map[string]pg.Size
		if cfg.Sizes != nil {
			sizes = sizeMap(&cfg)
		}
		opts := buildOptions(&cfg, mon, sizes)
		var src pg.EdgeSlice
		switch kind {
		case "empty":
			src = pg.EdgeSlice{}
		case "malformed":
			src = cloneEdges(r.Edges)
			src = append(src, []string{"only-one"})
		default:
			src = cloneEdges(r.Edges)
		}
		func() {
			current = i
			defer func() {
				current = -1
				if e := recover(); e != nil {
					results = append(results, []any{"panic", fmt.Sprint(e)})
				}
			}()
			out := autog.Layout(src, opts...)
			bs, _ := json.Marshal(serLayout(out))
			results = append(results, []any{"ok", string(bs)})
		}()
	}
	return map[string]any{"events": events, "results": results}
}

// opMonitor: scripted operation sequence on the monitor package itself (T-fun of the state machine).
// ops: ["set",k] (k<0: nil monitor), ["prefix",phaseAlg], ["log",key], ["reset"]
func opMonitor(c *Case) map[string]any {
	ops, _ := c.Arg["ops"].([]any)
	trace := []any{}
	mk := func(k int) imonitor.Monitor {
		return imonitor.NewFunc(func(phase int, alg, key string, val any) {
			trace = append(trace, []any{k, phase, alg, key})
		})
	}
	defer imonitor.Reset()
	for _, o := range ops {
		ov := o.([]any)
		switch ov[0].(string) {
		case "set":
			k := int(ov[1].(float64))
			if k < 0 {
				imonitor.Set(nil)
			} else {
				imonitor.Set(mk(k))
			}
		case "prefix":
			if int(ov[1].(float64)) == 0 {
				imonitor.PrefixFor(phase1.Greedy)
			} else {
				imonitor.PrefixFor(phase2.LongestPath)
			}
		case "log":
			imonitor.Log(ov[1].(string), 0)
		case "reset":
			imonitor.Reset()
		}
		trace = append(trace, "|")
	}
	return map[string]any{"trace": trace, "algs": []any{phase1.Greedy.String(), phase2.LongestPath.String()}}
}
