// Command verifharness runs the real nulab/autog code on generated or given cases and prints one JSON
// line per case: the case itself plus "obs", what the implementation did. It is compiled INTO the
// /repo module (go build -overlay), so it sees internal packages and, through export files, unexported
// functions of the current working tree. The real code always runs in worker processes.
package main

import (
	"bufio"
	"encoding/json"
	"flag"
	"fmt"
	"io"
	"os"
	"os/exec"
	"runtime"
	"strconv"
	"strings"
	"sync"
	"syscall"
	"time"
)

type Case struct {
	ID    string         `json:"id"`
	Op    string         `json:"op"`
	Cfg   *Cfg           `json:"cfg,omitempty"`
	Edges [][]string     `json:"edges,omitempty"`
	Arg   map[string]any `json:"arg,omitempty"`
	Runs  []Run          `json:"runs,omitempty"`
	Obs   map[string]any `json:"obs,omitempty"`
}

type Run struct {
	Cfg   *Cfg       `json:"cfg"`
	Edges [][]string `json:"edges"`
}

type Cfg struct {
	P1    int                 `json:"p1"`
	P2    int                 `json:"p2"`
	P3    int                 `json:"p3,omitempty"` // 0 = WMedian (default), 1 = OrderingNoop (documented "for testing purposes")
	P4    int                 `json:"p4"`
	BK    int                 `json:"bk"`
	P5    int                 `json:"p5"`
	NS    string              `json:"ns"`
	LS    string              `json:"ls"`
	Fixed []string            `json:"fixed"`
	Sizes map[string][]string `json:"sizes"`
	Virt  bool                `json:"virt"`
	Thor  int                 `json:"thor"`
	Mon   bool                `json:"mon"`
	Trace bool                `json:"trace"`
}

func main() {
	if len(os.Args) < 2 {
		fmt.Fprintln(os.Stderr, "usage: verifharness worker | run [flags]")
		os.Exit(2)
	}
	switch os.Args[1] {
	case "worker":
		workerMain()
	case "run":
		runMain(os.Args[2:])
	default:
		fmt.Fprintln(os.Stderr, "unknown mode")
		os.Exit(2)
	}
}

// ---------------------------------------------------------------------------------------------
// worker: reads case lines, writes case+obs lines, one per case, flushed

func workerMain() {
	in := bufio.NewReaderSize(os.Stdin, 1<<20)
	out := bufio.NewWriterSize(os.Stdout, 1<<20)
	for {
		line, err := in.ReadBytes('\n')
		if len(line) > 1 {
			var c Case
			if e := json.Unmarshal(line, &c); e != nil {
				fmt.Fprintln(os.Stderr, "bad case line:", e)
				os.Exit(3)
			}
			// in-process watchdog: a stop-the-world stack dump names the frame that hangs, then the worker exits
			to := caseTimeout(&c, defaultTimeoutMs())
			timer := time.AfterFunc(to, func() {
				buf := make([]byte, 1<<20)
				n := runtime.Stack(buf, true)
				os.Stderr.WriteString("VERIF-WATCHDOG timeout\n")
				os.Stderr.Write(buf[:n])
				os.Exit(3)
			})
			t0 := time.Now()
			c.Obs = runOp(&c)
			timer.Stop()
			if c.Obs != nil {
				c.Obs["ms"] = time.Since(t0).Milliseconds()
				c.Obs["budget_ms"] = to.Milliseconds()
			}
			b, _ := json.Marshal(&c)
			out.Write(b)
			out.WriteByte('\n')
			out.Flush()
		}
		if err != nil {
			return
		}
	}
}

func defaultTimeoutMs() int {
	if v := os.Getenv("VERIF_CASE_TIMEOUT_MS"); v != "" {
		if n, err := strconv.Atoi(v); err == nil {
			return n
		}
	}
	return 20000
}

// caseTimeout: the budget is generous for the size of the input: base + 2 s per edge
func caseTimeout(c *Case, baseMs int) time.Duration {
	if c.Arg != nil {
		if v, ok := c.Arg["timeout_ms"].(float64); ok {
			return time.Duration(v) * time.Millisecond
		}
	}
	n := len(c.Edges)
	for _, r := range c.Runs {
		n += len(r.Edges)
	}
	return time.Duration(baseMs+2000*n) * time.Millisecond
}

// ---------------------------------------------------------------------------------------------
// parent: generates (or reads) cases, feeds W workers, watchdog per case

type workerProc struct {
	cmd    *exec.Cmd
	stdin  io.WriteCloser
	stdout *bufio.Reader
	stderr *strings.Builder
	mu     sync.Mutex
}

func startWorker(memMB, timeoutMs int) *workerProc {
	cmd := exec.Command(os.Args[0], "worker")
	cmd.Env = append(os.Environ(), fmt.Sprintf("GOMEMLIMIT=%dMiB", memMB), "GOTRACEBACK=single", "GOMAXPROCS=2", "GORACE=halt_on_error=1",
		fmt.Sprintf("VERIF_CASE_TIMEOUT_MS=%d", timeoutMs))
	stdin, _ := cmd.StdinPipe()
	stdout, _ := cmd.StdoutPipe()
	sb := &strings.Builder{}
	w := &workerProc{cmd: cmd, stdin: stdin, stdout: bufio.NewReaderSize(stdout, 1<<20), stderr: sb}
	errp, _ := cmd.StderrPipe()
	if err := cmd.Start(); err != nil {
		panic(err)
	}
	// hard address-space limit, so a runaway allocation kills the worker and not the machine
	_ = syscall.Setpriority
	go func() {
		buf := make([]byte, 64<<10)
		for {
			n, err := errp.Read(buf)
			if n > 0 {
				w.mu.Lock()
				if sb.Len() < 1<<20 {
					sb.Write(buf[:n])
				}
				w.mu.Unlock()
			}
			if err != nil {
				return
			}
		}
	}()
	return w
}

func (w *workerProc) kill() {
	w.cmd.Process.Kill()
	w.cmd.Wait()
}

// topAutogFrame extracts the first autog frame of a Go traceback
func topAutogFrame(tb string) string {
	lines := strings.Split(tb, "\n")
	for i, l := range lines {
		if strings.HasPrefix(l, "github.com/nulab/autog") && !strings.Contains(l, "verifharness") {
			fn := l
			if j := strings.LastIndex(fn, "("); j > 0 {
				fn = fn[:j]
			}
			fn = strings.TrimPrefix(fn, "github.com/nulab/autog/")
			loc := ""
			if i+1 < len(lines) {
				loc = strings.TrimSpace(lines[i+1])
				if j := strings.Index(loc, " "); j > 0 {
					loc = loc[:j]
				}
				if j := strings.LastIndex(loc, "/repo/"); j >= 0 {
					loc = loc[j+6:]
				}
			}
			return fn + " " + loc
		}
	}
	return ""
}

func runMain(args []string) {
	fl := flag.NewFlagSet("run", flag.ExitOnError)
	suite := fl.String("suite", "", "generator suite")
	seed := fl.Uint64("seed", 1, "seed")
	count := fl.Int("count", 100, "number of generated cases")
	casesFile := fl.String("cases", "", "read cases from file instead of generating ('-' = stdin)")
	workers := fl.Int("workers", runtime.NumCPU(), "worker processes")
	timeoutMs := fl.Int("timeout", 20000, "per-case watchdog (ms)")
	memMB := fl.Int("mem", 1500, "GOMEMLIMIT per worker (MiB)")
	outFile := fl.String("out", "-", "output file")
	genOnly := fl.Bool("genonly", false, "print the generated cases without running them")
	fl.Parse(args)

	var cases []*Case
	if *casesFile != "" {
		var r io.Reader = os.Stdin
		if *casesFile != "-" {
			f, err := os.Open(*casesFile)
			if err != nil {
				panic(err)
			}
			defer f.Close()
			r = f
		}
		sc := bufio.NewScanner(r)
		sc.Buffer(make([]byte, 1<<20), 1<<28)
		for sc.Scan() {
			if len(strings.TrimSpace(sc.Text())) == 0 {
				continue
			}
			var c Case
			if err := json.Unmarshal(sc.Bytes(), &c); err != nil {
				panic(err)
			}
			c.Obs = nil
			cases = append(cases, &c)
		}
	} else {
		for i := 0; i < *count; i++ {
			c := generate(*suite, *seed, i)
			if c != nil {
				cases = append(cases, c)
			}
		}
	}

	var w io.Writer = os.Stdout
	if *outFile != "-" {
		f, err := os.Create(*outFile)
		if err != nil {
			panic(err)
		}
		defer f.Close()
		w = f
	}
	bw := bufio.NewWriterSize(w, 1<<20)
	defer bw.Flush()

	if *genOnly {
		for _, c := range cases {
			b, _ := json.Marshal(c)
			bw.Write(b)
			bw.WriteByte('\n')
		}
		return
	}

	results := make([][]byte, len(cases))
	var next int
	var mu sync.Mutex
	var wg sync.WaitGroup
	for k := 0; k < *workers; k++ {
		wg.Add(1)
		go func() {
			defer wg.Done()
			var wp *workerProc
			for {
				mu.Lock()
				i := next
				next++
				mu.Unlock()
				if i >= len(cases) {
					break
				}
				c := cases[i]
				if wp == nil {
					wp = startWorker(*memMB, *timeoutMs)
				}
				line, _ := json.Marshal(c)
				line = append(line, '\n')
				type res struct {
					b   []byte
					err error
				}
				ch := make(chan res, 1)
				go func(wp *workerProc) {
					if _, err := wp.stdin.Write(line); err != nil {
						ch <- res{nil, err}
						return
					}
					b, err := wp.stdout.ReadBytes('\n')
					ch <- res{b, err}
				}(wp)
				to := caseTimeout(c, *timeoutMs) + 3*time.Second // the worker's own watchdog fires first
				var r res
				crash := ""
				select {
				case r = <-ch:
					if r.err != nil || len(r.b) == 0 {
						crash = "exit"
					}
				case <-time.After(to):
					crash = "timeout"
					wp.cmd.Process.Signal(syscall.SIGQUIT)
					time.Sleep(300 * time.Millisecond)
				}
				if crash != "" {
					wp.kill()
					wp.mu.Lock()
					tb := wp.stderr.String()
					wp.mu.Unlock()
					kind := crash
					if strings.Contains(tb, "VERIF-WATCHDOG timeout") {
						kind = "timeout"
						tb = tb[strings.Index(tb, "VERIF-WATCHDOG timeout"):]
					}
					switch {
					case strings.Contains(tb, "WARNING: DATA RACE"):
						kind = "data-race"
						tb = tb[strings.Index(tb, "WARNING: DATA RACE"):]
					case strings.Contains(tb, "stack exceeds"):
						kind = "stack-overflow"
					case strings.Contains(tb, "out of memory") || strings.Contains(tb, "cannot allocate"):
						kind = "out-of-memory"
					case crash == "exit" && strings.Contains(tb, "fatal error"):
						kind = "fatal"
					}
					head := tb
					if len(head) > 1500 {
						head = head[:1500]
					}
					c.Obs = map[string]any{"crash": kind, "site": topAutogFrame(tb), "stderr": head}
					b, _ := json.Marshal(c)
					results[i] = append(b, '\n')
					wp = nil
					continue
				}
				results[i] = r.b
			}
			if wp != nil {
				wp.stdin.Close()
				wp.cmd.Wait()
			}
		}()
	}
	wg.Wait()
	for _, b := range results {
		bw.Write(b)
	}
}
