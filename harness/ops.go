package main

import (
	"encoding/json"
	"fmt"
	"reflect"
	"runtime"
	"strings"

	"github.com/nulab/autog"
	pg "github.com/nulab/autog/graph"
	ig "github.com/nulab/autog/internal/graph"
	imonitor "github.com/nulab/autog/internal/monitor"
	"github.com/nulab/autog/internal/phase1"
	"github.com/nulab/autog/internal/phase2"
	"github.com/nulab/autog/internal/phase3"
	"github.com/nulab/autog/internal/phase4"
	"github.com/nulab/autog/internal/phase5"
)

func runOp(c *Case) (obs map[string]any) {
	switch c.Op {
	case "layout":
		return opLayout(c)
	case "multi":
		return opMulti(c)
	case "monitor":
		return opMonitor(c)
	case "concurrent":
		return opConcurrent(c)
	case "history":
		return opHistory(c)
	case "countcross":
		return opCountCross(c)
	case "shortest":
		return opShortest(c)
	case "fitspline":
		return opFitSpline(c)
	case "solve":
		return opSolve(c)
	default:
		return map[string]any{"error": "unknown op " + c.Op}
	}
}

// decoyOf: a second size map handed to an EARLIER WithNodeSize of the same call (the later option replaces the earlier one
// entirely, so it must neither show in the result nor be written to); nil in most cases
func decoyOf(cfg *Cfg, sizes map[string]pg.Size) map[string]pg.Size {
	if sizes == nil || (len(sizes)+cfg.P4+cfg.P5+len(cfg.NS))%3 != 0 {
		return nil
	}
	d := map[string]pg.Size{"\x00decoy": {W: 7, H: 9}}
	for k, v := range sizes {
		d[k] = pg.Size{W: v.W + 1, H: v.H + 2}
	}
	return d
}

func buildOptions(cfg *Cfg, mon imonitor.Monitor, sizes map[string]pg.Size, decoy ...map[string]pg.Size) []autog.Option {
	var opts []autog.Option
	// an algorithm that is the documented default is requested explicitly in some cases and left to the default in others
	// (derived from the configuration, so that a case replays identically)
	dh := uint64(cfg.P1*5+cfg.P2*11+cfg.P4*23+cfg.P5*47) + uint64(len(cfg.NS))*3 + uint64(len(cfg.LS))*7 + uint64(len(sizes))*13
	useDefault := func(bit uint) bool { return (dh>>bit)&1 == 1 }
	if cfg.P3 == 1 {
		opts = append(opts, autog.WithOrdering(phase3.NoOrdering))
	} else if !useDefault(4) {
		opts = append(opts, autog.WithOrdering(phase3.WMedian))
	}
	switch cfg.P1 {
	case 0:
		if !useDefault(0) {
			opts = append(opts, autog.WithCycleBreaking(phase1.Greedy))
		}
	case 1:
		opts = append(opts, autog.WithCycleBreaking(phase1.DepthFirst))
	case 2:
		opts = append(opts, autog.WithCycleBreaking(phase1.Greedy), autog.WithNonDeterministicGreedyCycleBreaker())
	}
	switch cfg.P2 {
	case 0:
		if !useDefault(1) {
			opts = append(opts, autog.WithLayering(phase2.NetworkSimplex))
		}
	case 1:
		opts = append(opts, autog.WithLayering(phase2.LongestPath))
	}
	switch cfg.P4 {
	case 0:
		if !useDefault(2) {
			opts = append(opts, autog.WithPositioning(phase4.SinkColoring))
		}
	case 1:
		opts = append(opts, autog.WithPositioning(phase4.VerticalAlign))
	case 2:
		opts = append(opts, autog.WithPositioning(phase4.PackRight))
	case 3:
		opts = append(opts, autog.WithPositioning(phase4.NetworkSimplex))
	case 4:
		opts = append(opts, autog.WithPositioning(phase4.BrandesKoepf), autog.WithBrandesKoepfLayout(cfg.BK))
	case 5:
		opts = append(opts, autog.WithPositioning(phase4.NoPositioning))
	}
	switch cfg.P5 {
	case 0:
		if !useDefault(3) {
			opts = append(opts, autog.WithEdgeRouting(phase5.Polyline))
		}
	case 1:
		opts = append(opts, autog.WithEdgeRouting(phase5.Straight))
	case 2:
		opts = append(opts, autog.WithEdgeRouting(phase5.Ortho))
	case 3:
		opts = append(opts, autog.WithEdgeRouting(phase5.Splines))
	case 4:
		opts = append(opts, autog.WithEdgeRouting(phase5.NoRouting))
	}
	if cfg.NS != "" {
		opts = append(opts, autog.WithNodeSpacing(pf(cfg.NS)))
	}
	if cfg.LS != "" {
		opts = append(opts, autog.WithLayerSpacing(pf(cfg.LS)))
	}
	if cfg.Fixed != nil {
		opts = append(opts, autog.WithNodeFixedSize(pf(cfg.Fixed[0]), pf(cfg.Fixed[1])))
	}
	decoyAt, realAt := -1, -1
	if cfg.Sizes != nil {
		if len(decoy) > 0 && decoy[0] != nil {
			decoyAt = len(opts)
			opts = append(opts, autog.WithNodeSize(decoy[0]))
		}
		realAt = len(opts)
		opts = append(opts, autog.WithNodeSize(sizes))
	}
	if cfg.Virt {
		opts = append(opts, autog.WithOutputVirtualNodes(true))
	}
	if cfg.Thor >= 0 {
		opts = append(opts, autog.WithNetworkSimplexThoroughness(uint(cfg.Thor)))
	}
	if mon != nil {
		opts = append(opts, autog.WithMonitor(mon))
	}
	// the options are independent setters: apply them in an order derived from the configuration,
	// so that no property silently depends on one particular order
	h := uint64(cfg.P1*7+cfg.P2*13+cfg.P4*31+cfg.P5*61+cfg.Thor*3) + uint64(len(cfg.NS))*17 + uint64(len(sizes))
	r := &rng{s: h}
	at := make([]int, len(opts)) // at[i] = original index of the option now at position i
	for i := range at {
		at[i] = i
	}
	for i := len(opts) - 1; i > 0; i-- {
		j := r.intn(i + 1)
		opts[i], opts[j] = opts[j], opts[i]
		at[i], at[j] = at[j], at[i]
	}
	if decoyAt >= 0 { // the decoy map must come before the real one
		di, ri := -1, -1
		for i, a := range at {
			if a == decoyAt {
				di = i
			}
			if a == realAt {
				ri = i
			}
		}
		if di > ri {
			opts[di], opts[ri] = opts[ri], opts[di]
		}
	}
	return opts
}

func sizeMap(cfg *Cfg) map[string]pg.Size {
	m := map[string]pg.Size{}
	for id, wh := range cfg.Sizes {
		s := pg.Size{W: pf(wh[0]), H: pf(wh[1])}
		if len(wh) == 4 { // X,Y given too (they must not leak into the layout)
			s.X = pf(wh[2])
			s.Y = pf(wh[3])
		}
		m[id] = s
	}
	return m
}

func cloneEdges(es [][]string) pg.EdgeSlice {
	out := make(pg.EdgeSlice, len(es))
	for i, e := range es {
		out[i] = append([]string(nil), e...)
	}
	return out
}

// panicSite returns the innermost autog frame of the current (panicking) stack
func panicSite() string {
	pcs := make([]uintptr, 64)
	n := runtime.Callers(3, pcs)
	frames := runtime.CallersFrames(pcs[:n])
	for {
		f, more := frames.Next()
		if strings.HasPrefix(f.Function, "github.com/nulab/autog") && !strings.Contains(f.Function, "verifharness") {
			file := f.File
			if j := strings.LastIndex(file, "/repo/"); j >= 0 {
				file = file[j+6:]
			}
			return fmt.Sprintf("%s %s:%d", strings.TrimPrefix(f.Function, "github.com/nulab/autog/"), file, f.Line)
		}
		if !more {
			return ""
		}
	}
}

type layoutRun struct {
	out      pg.Layout
	panicked bool
	pmsg     string
	psite    string
	events   []any
	comps    [][]any // per component: list of [stage, snapshot]
	meta     [][]any // per component: [virt, layer] of every node of g.Nodes at stage 6
	pivots   []any   // per component: [pivots, maxitr] of the phase-2 simplex loop, or nil
	better   []any   // per component: a strictly shorter feasible layering found by search (NS layering), or nil
	decoyMod bool    // a size map passed to an earlier, overridden WithNodeSize of the same call was written to
}

// oneLayout runs Layout once on private copies of the inputs
func oneLayout(c *Case, trace bool, withMon bool) (r layoutRun, src pg.EdgeSlice, sizesBefore, sizesAfter map[string]pg.Size) {
	src = cloneEdges(c.Edges)
	var mon imonitor.Monitor
	if withMon {
		mon = imonitor.NewFunc(func(phase int, alg, key string, val any) {
			var v any
			switch t := val.(type) {
			case int:
				v = t
			case string:
				v = t
			default:
				v = fmt.Sprintf("%T", val)
			}
			r.events = append(r.events, []any{phase, alg, key, v})
		})
	}
	cfg := *c.Cfg
	if cfg.Sizes != nil {
		sizesBefore = sizeMap(&cfg)
		sizesAfter = sizeMap(&cfg)
	}
	decoy := decoyOf(&cfg, sizesAfter)
	decoyBefore := map[string]pg.Size{}
	for k, v := range decoy {
		decoyBefore[k] = v
	}
	opts := buildOptions(&cfg, mon, sizesAfter, decoy)
	var lastPivots any
	phase2.VerifPivotsFn = func(nodes, pivots, maxitr int) {
		if lastPivots == nil { // the first call after phase 1 is the layerer; later ones belong to the positioner
			lastPivots = []any{pivots, maxitr}
		}
	}
	autog.VerifTraceFn = func(stage int, g *ig.DGraph) {
		if stage == 1 {
			lastPivots = nil
		}
		if stage == 2 {
			r.pivots = append(r.pivots, lastPivots)
			var b any
			if cfg.P2 == 0 && len(g.Nodes) > 1 {
				if bl := improveLayering(g); bl != nil {
					b = bl
				}
			}
			r.better = append(r.better, b)
			lastPivots = []any{} // block later calls
		}
		if stage == 6 {
			var m []any
			for _, n := range g.Nodes {
				m = append(m, []any{n.IsVirtual, n.Layer})
			}
			r.meta = append(r.meta, m)
		}
		if !trace {
			return
		}
		if stage == 0 {
			r.comps = append(r.comps, nil)
		}
		k := len(r.comps) - 1
		r.comps[k] = append(r.comps[k], []any{stage, serGraph(g)})
	}
	defer func() {
		autog.VerifTraceFn = nil
		phase2.VerifPivotsFn = nil
		if e := recover(); e != nil {
			r.panicked = true
			r.pmsg = fmt.Sprint(e)
			r.psite = panicSite()
		}
	}()
	r.out = autog.Layout(src, opts...)
	if decoy != nil && !reflect.DeepEqual(decoy, decoyBefore) {
		r.decoyMod = true
	}
	return
}

func opLayout(c *Case) map[string]any {
	obs := map[string]any{}
	r, src, szb, sza := oneLayout(c, c.Cfg.Trace, c.Cfg.Mon)
	if r.panicked {
		obs["panic"] = r.pmsg
		obs["site"] = r.psite
		return obs
	}
	obs["out"] = serLayout(r.out)
	// per output node: [virtual, layer, component] (the public result cannot tell helper nodes apart)
	meta := []any{}
	for ci, m := range r.meta {
		for _, x := range m {
			xv := x.([]any)
			if xv[0].(bool) && !c.Cfg.Virt {
				continue
			}
			meta = append(meta, []any{xv[0], xv[1], ci})
		}
	}
	obs["meta"] = meta
	if c.Cfg.Mon {
		obs["events"] = r.events
	}
	if c.Cfg.Trace {
		obs["comps"] = r.comps
	}
	obs["pivots"] = r.pivots
	obs["better"] = r.better
	// inputs untouched?
	obs["inputmod"] = !reflect.DeepEqual([][]string(src), c.Edges) || !reflect.DeepEqual(szb, sza) || r.decoyMod
	// a monitor must not change the result: same call with the monitor toggled
	if _, ok := c.Arg["montoggle"]; ok {
		r2, _, _, _ := oneLayout(c, false, !c.Cfg.Mon)
		if r2.panicked {
			obs["mon_same"] = false
		} else {
			a, _ := json.Marshal(serLayout(r.out))
			b, _ := json.Marshal(serLayout(r2.out))
			obs["mon_same"] = string(a) == string(b)
		}
	}
	reps := 0
	if v, ok := c.Arg["repeat"].(float64); ok {
		reps = int(v)
	}
	if reps > 0 {
		ref, _ := json.Marshal(serLayout(r.out))
		same := true
		for i := 0; i < reps; i++ {
			// alternate monitor on/off: a monitor must not change the result either
			r2, _, _, _ := oneLayout(c, false, i%2 == 1)
			if r2.panicked {
				same = false
				obs["rep_panic"] = r2.pmsg
				break
			}
			b, _ := json.Marshal(serLayout(r2.out))
			if string(b) != string(ref) {
				same = false
				obs["rep_out"] = serLayout(r2.out)
				break
			}
		}
		obs["rep_same"] = same
		obs["reps"] = reps
		// the same option LIST reused: a list with spare capacity, a call with a shorter list that shares its backing array in
		// between (an application that derives per-diagram options from common ones with append) - Layout must leave the list alone
		if _, want := c.Arg["optlist"]; want {
			if s2, ok := optionListReuse(c); ok {
				obs["optlist_same"] = s2
			}
		}
	}
	return obs
}

func optionListReuse(c *Case) (same bool, ok bool) {
	cfg := *c.Cfg
	var sizes map[string]pg.Size
	if cfg.Sizes != nil {
		sizes = sizeMap(&cfg)
	}
	opts := buildOptions(&cfg, nil, sizes)
	if len(opts) < 2 {
		return true, false
	}
	shared := make([]autog.Option, 0, len(opts)+4)
	shared = append(shared, opts...)
	defer func() {
		if e := recover(); e != nil {
			same, ok = false, true
		}
	}()
	a, _ := json.Marshal(serLayout(autog.Layout(cloneEdges(c.Edges), shared...)))
	_ = autog.Layout(cloneEdges(c.Edges), shared[:len(shared)-1]...)
	// ... and a call with quite different options (another positioner and router, helper nodes in the output toggled, another fixed
	// size, other spacings): nothing of it may stick
	other := cfg
	other.P4 = (cfg.P4 + 1) % 3
	other.P5 = []int{1, 2, 0, 0, 0}[cfg.P5%5]
	other.Virt = !cfg.Virt
	other.Sizes = nil
	other.Fixed = []string{fs(7), fs(9)}
	other.NS, other.LS = fs(3), fs(5)
	func() {
		defer func() { _ = recover() }()
		_ = autog.Layout(cloneEdges(c.Edges), buildOptions(&other, nil, nil)...)
	}()
	b, _ := json.Marshal(serLayout(autog.Layout(cloneEdges(c.Edges), shared...)))
	return string(a) == string(b), true
}
