package main

import (
	"math"
	"strconv"

	pg "github.com/nulab/autog/graph"
	ig "github.com/nulab/autog/internal/graph"
)

// fs prints a float64 exactly: "<mantissa>p<exp>" (value = mantissa * 2^exp), or NaN/+Inf/-Inf.
func fs(x float64) string {
	if x == 0 {
		if math.Signbit(x) {
			return "-0p0"
		}
		return "0p0"
	}
	return strconv.FormatFloat(x, 'b', -1, 64)
}

func pf(s string) float64 {
	x, err := strconv.ParseFloat(s, 64)
	if err == nil {
		return x
	}
	// "<m>p<e>"
	for i := 0; i < len(s); i++ {
		if s[i] == 'p' {
			m, _ := strconv.ParseInt(s[:i], 10, 64)
			e, _ := strconv.Atoi(s[i+1:])
			return math.Ldexp(float64(m), e)
		}
	}
	panic("bad float " + s)
}

type jmap = map[string]any

func serPoints(ps [][2]float64) []any {
	out := make([]any, len(ps))
	for i, p := range ps {
		out[i] = []any{fs(p[0]), fs(p[1])}
	}
	return out
}

// serGraph writes the whole component graph with pointers mapped to indices:
// nodes by position in g.Nodes, edges by position in g.Edges, edges that are only reachable
// through In/Out lists get indices >= len(g.Edges) in discovery order ("x" list).
func serGraph(g *ig.DGraph) jmap {
	nidx := map[*ig.Node]int{}
	for i, n := range g.Nodes {
		if _, ok := nidx[n]; !ok {
			nidx[n] = i
		}
	}
	eidx := map[*ig.Edge]int{}
	for i, e := range g.Edges {
		if _, ok := eidx[e]; !ok {
			eidx[e] = i
		}
	}
	var extra []*ig.Edge
	eid := func(e *ig.Edge) int {
		if i, ok := eidx[e]; ok {
			return i
		}
		i := len(g.Edges) + len(extra)
		eidx[e] = i
		extra = append(extra, e)
		return i
	}
	nid := func(n *ig.Node) int {
		if n == nil {
			return -2
		}
		if i, ok := nidx[n]; ok {
			return i
		}
		return -1
	}
	nodes := make([]any, len(g.Nodes))
	for i, n := range g.Nodes {
		in := make([]any, len(n.In))
		for j, e := range n.In {
			in[j] = eid(e)
		}
		out := make([]any, len(n.Out))
		for j, e := range n.Out {
			out[j] = eid(e)
		}
		nodes[i] = []any{n.ID, n.Layer, n.LayerPos, n.IsVirtual, fs(n.X), fs(n.Y), fs(n.W), fs(n.H), in, out}
	}
	serEdge := func(e *ig.Edge) any {
		return []any{nid(e.From), nid(e.To), e.IsReversed, e.Delta, e.Weight, e.IsInSpanningTree, e.CutValue, e.ArrowHeadStart, serPoints(e.Points)}
	}
	edges := make([]any, len(g.Edges))
	for i, e := range g.Edges {
		edges[i] = serEdge(e)
	}
	xs := []any{}
	for i := 0; i < len(extra); i++ {
		xs = append(xs, serEdge(extra[i]))
	}
	layers := make([]any, len(g.Layers))
	for i, l := range g.Layers {
		if l == nil {
			layers[i] = nil
			continue
		}
		ns := make([]any, len(l.Nodes))
		for j, n := range l.Nodes {
			ns[j] = nid(n)
		}
		layers[i] = []any{l.Index, ns, fs(l.W), fs(l.H)}
	}
	return jmap{"n": nodes, "e": edges, "x": xs, "l": layers}
}

func serLayout(l pg.Layout) jmap {
	nodes := make([]any, len(l.Nodes))
	for i, n := range l.Nodes {
		nodes[i] = []any{n.ID, fs(n.X), fs(n.Y), fs(n.W), fs(n.H)}
	}
	edges := make([]any, len(l.Edges))
	for i, e := range l.Edges {
		var pts any
		if e.Points == nil {
			pts = nil
		} else {
			pts = serPoints(e.Points)
		}
		edges[i] = []any{e.FromID, e.ToID, e.ArrowHeadStart, pts}
	}
	return jmap{"nodes": nodes, "edges": edges}
}
