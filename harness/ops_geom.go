package main

import (
	"container/heap"
	"fmt"
	"math"
	"sort"

	"github.com/nulab/autog/internal/geom"
	"github.com/nulab/autog/internal/phase3"
)

func argRects(c *Case) []geom.Rect {
	rs, _ := c.Arg["rects"].([]any)
	out := make([]geom.Rect, len(rs))
	for i, r := range rs {
		v := r.([]any)
		out[i] = geom.Rect{TL: geom.P{X: pf(v[0].(string)), Y: pf(v[1].(string))}, BR: geom.P{X: pf(v[2].(string)), Y: pf(v[3].(string))}}
	}
	return out
}

func argPoint(c *Case, k string) geom.P {
	v := c.Arg[k].([]any)
	return geom.P{X: pf(v[0].(string)), Y: pf(v[1].(string))}
}

func serPs(ps []geom.P) []any {
	out := make([]any, len(ps))
	for i, p := range ps {
		out[i] = []any{fs(p.X), fs(p.Y)}
	}
	return out
}

// ---- search only: float visibility-graph shortest path inside the corridor (re-validated exactly by the driver)

func inRects(rs []geom.Rect, x, y float64) bool {
	const eps = 1e-9
	for _, r := range rs {
		if x >= r.TL.X-eps && x <= r.BR.X+eps && y >= r.TL.Y-eps && y <= r.BR.Y+eps {
			return true
		}
	}
	return false
}

func segInsideF(rs []geom.Rect, a, b geom.P) bool {
	ts := []float64{0, 1}
	dx, dy := b.X-a.X, b.Y-a.Y
	for _, r := range rs {
		if dx != 0 {
			ts = append(ts, (r.TL.X-a.X)/dx, (r.BR.X-a.X)/dx)
		}
		if dy != 0 {
			ts = append(ts, (r.TL.Y-a.Y)/dy, (r.BR.Y-a.Y)/dy)
		}
	}
	sort.Float64s(ts)
	prev := 0.0
	for _, t := range ts {
		if t <= 0 || t > 1 {
			continue
		}
		m := (prev + t) / 2
		if !inRects(rs, a.X+m*dx, a.Y+m*dy) || !inRects(rs, a.X+t*dx, a.Y+t*dy) {
			return false
		}
		prev = t
	}
	return inRects(rs, a.X, a.Y)
}

type pqItem struct {
	v int
	d float64
}
type pq []pqItem

func (q pq) Len() int            { return len(q) }
func (q pq) Less(i, j int) bool  { return q[i].d < q[j].d }
func (q pq) Swap(i, j int)       { q[i], q[j] = q[j], q[i] }
func (q *pq) Push(x any)         { *q = append(*q, x.(pqItem)) }
func (q *pq) Pop() any           { o := *q; x := o[len(o)-1]; *q = o[:len(o)-1]; return x }

// altShortest: from p2 to p1 (the order geom.Shortest returns)
func altShortest(rs []geom.Rect, p1, p2 geom.P) []geom.P {
	vs := []geom.P{p2, p1}
	for _, r := range rs {
		vs = append(vs, r.TL, r.BR, geom.P{X: r.TL.X, Y: r.BR.Y}, geom.P{X: r.BR.X, Y: r.TL.Y})
	}
	n := len(vs)
	dist := make([]float64, n)
	prev := make([]int, n)
	for i := range dist {
		dist[i] = math.Inf(1)
		prev[i] = -1
	}
	dist[0] = 0
	q := &pq{{0, 0}}
	for q.Len() > 0 {
		it := heap.Pop(q).(pqItem)
		if it.d > dist[it.v] {
			continue
		}
		for w := 0; w < n; w++ {
			if w == it.v || vs[w] == vs[it.v] {
				continue
			}
			if !segInsideF(rs, vs[it.v], vs[w]) {
				continue
			}
			d := it.d + math.Hypot(vs[w].X-vs[it.v].X, vs[w].Y-vs[it.v].Y)
			if d < dist[w]-1e-12 {
				dist[w] = d
				prev[w] = it.v
				heap.Push(q, pqItem{w, d})
			}
		}
	}
	if math.IsInf(dist[1], 1) {
		return nil
	}
	var path []geom.P
	for v := 1; v >= 0; v = prev[v] {
		path = append(path, vs[v])
		if v == 0 {
			break
		}
	}
	// reverse: p2 first
	for i, j := 0, len(path)-1; i < j; i, j = i+1, j-1 {
		path[i], path[j] = path[j], path[i]
	}
	return path
}

func opShortest(c *Case) (obs map[string]any) {
	rs := argRects(c)
	p1, p2 := argPoint(c, "p1"), argPoint(c, "p2")
	obs = map[string]any{}
	if alt := altShortest(rs, p1, p2); alt != nil {
		obs["alt"] = serPs(alt)
	}
	defer func() {
		if e := recover(); e != nil {
			obs["panic"] = fmt.Sprint(e)
			obs["site"] = panicSite()
		}
	}()
	path := geom.Shortest(p1, p2, rs)
	obs["path"] = serPs(path)
	return obs
}

func opFitSpline(c *Case) (obs map[string]any) {
	rs := argRects(c)
	p1, p2 := argPoint(c, "p1"), argPoint(c, "p2")
	obs = map[string]any{}
	defer func() {
		if e := recover(); e != nil {
			obs["panic"] = fmt.Sprint(e)
			obs["site"] = panicSite()
		}
	}()
	path := geom.Shortest(p1, p2, rs)
	obs["path"] = serPs(path)
	if alt := altShortest(rs, p1, p2); alt != nil {
		obs["alt"] = serPs(alt)
	}
	if len(path) < 3 {
		return obs
	}
	pieces := geom.VerifFit(path, geom.MergeRects(rs).Sides())
	out := make([]any, len(pieces))
	for i, pc := range pieces {
		out[i] = serPs(pc[:])
	}
	obs["pieces"] = out
	return obs
}

func opSolve(c *Case) (obs map[string]any) {
	cs, _ := c.Arg["coeff"].([]any)
	co := make([]float64, len(cs))
	for i, x := range cs {
		co[i] = pf(x.(string))
	}
	obs = map[string]any{}
	defer func() {
		if e := recover(); e != nil {
			obs["panic"] = fmt.Sprint(e)
		}
	}()
	roots := geom.VerifSolve3(co)
	if roots == nil {
		obs["roots"] = nil
		return obs
	}
	out := make([]any, len(roots))
	for i, r := range roots {
		out[i] = fs(r)
	}
	obs["roots"] = out
	return obs
}

// opCountCross: the crossing counter on a constructed bilayer (layer indices may exceed 63)
func opCountCross(c *Case) map[string]any {
	_ = phase3.WMedian
	return map[string]any{"error": "not wired"}
}
