package main

import (
	"fmt"
	"hash/fnv"
	"strconv"
	"strings"
)

// ---------------------------------------------------------------------------------------------
// one PRNG (splitmix64); every case derives its own state from (suite, seed, index), so it replays alone

type rng struct{ s uint64 }

func (r *rng) next() uint64 {
	r.s += 0x9E3779B97F4A7C15
	z := r.s
	z = (z ^ (z >> 30)) * 0xBF58476D1CE4E5B9
	z = (z ^ (z >> 27)) * 0x94D049BB133111EB
	return z ^ (z >> 31)
}
func (r *rng) intn(n int) int {
	if n <= 0 {
		return 0
	}
	return int(r.next() % uint64(n))
}
func (r *rng) rangeIn(lo, hi int) int { return lo + r.intn(hi-lo+1) }
func (r *rng) chance(num, den int) bool { return r.intn(den) < num }
func (r *rng) perm(n int) []int {
	p := make([]int, n)
	for i := range p {
		p[i] = i
	}
	for i := n - 1; i > 0; i-- {
		j := r.intn(i + 1)
		p[i], p[j] = p[j], p[i]
	}
	return p
}

func caseRng(suite string, seed uint64, i int) *rng {
	h := fnv.New64a()
	h.Write([]byte(suite))
	return &rng{s: h.Sum64() ^ (seed * 0x9E3779B97F4A7C15) ^ (uint64(i) * 0xD1B54A32D192ED03)}
}

// ---------------------------------------------------------------------------------------------
// graphs

type gp struct {
	maxN, maxM int
	kind       int // -1 random choice
	selfLoops  bool
	multi      bool // parallel / antiparallel edges allowed
	comps      bool // unions allowed
	names      int  // 0 plain, 1 may be adversarial
}

func plainName(i int) string { return "n" + strconv.Itoa(i) }

// edge lists over node numbers
func genEdgesNum(r *rng, p gp, kind int) (n int, es [][2]int) {
	switch kind {
	case 0: // random multigraph
		n = r.rangeIn(1, p.maxN)
		m := r.rangeIn(1, p.maxM)
		for i := 0; i < m; i++ {
			a, b := r.intn(n), r.intn(n)
			if a == b && !(p.selfLoops && r.chance(1, 2)) {
				if n == 1 {
					if !p.selfLoops {
						n = 2
						b = 1
					}
				} else {
					b = (a + 1 + r.intn(n-1)) % n
				}
			}
			es = append(es, [2]int{a, b})
			if p.multi && len(es) > 0 && r.chance(1, 5) {
				k := es[r.intn(len(es))]
				if r.chance(1, 2) {
					k = [2]int{k[1], k[0]}
				}
				es = append(es, k)
			}
		}
	case 1: // DAG, possibly with parallel edges
		n = r.rangeIn(2, p.maxN)
		m := r.rangeIn(1, p.maxM)
		lab := r.perm(n)
		for i := 0; i < m; i++ {
			a, b := r.intn(n), r.intn(n)
			if a == b {
				b = (a + 1 + r.intn(n-1)) % n
			}
			if lab[a] > lab[b] {
				a, b = b, a
			}
			es = append(es, [2]int{a, b})
			if p.multi && r.chance(1, 6) {
				es = append(es, [2]int{a, b})
			}
		}
	case 2: // rooted tree, edges away from (out) or toward (in) the root
		n = r.rangeIn(2, p.maxN)
		in := r.chance(1, 2)
		for i := 1; i < n; i++ {
			par := r.intn(i)
			if in {
				es = append(es, [2]int{i, par})
			} else {
				es = append(es, [2]int{par, i})
			}
		}
		// any edge order
		pm := r.perm(len(es))
		es2 := make([][2]int, len(es))
		for i, j := range pm {
			es2[i] = es[j]
		}
		es = es2
	case 3: // backbone chain with chords: long edges, pivots
		L := r.rangeIn(3, max(3, p.maxN))
		n = L
		for i := 0; i+1 < L; i++ {
			es = append(es, [2]int{i, i + 1})
		}
		extra := r.rangeIn(1, max(1, p.maxM/2))
		for i := 0; i < extra; i++ {
			a, b := r.intn(n), r.intn(n)
			if a == b {
				continue
			}
			if r.chance(3, 4) && a > b {
				a, b = b, a
			}
			if r.chance(1, 3) { // hang a new node
				es = append(es, [2]int{a, n})
				if r.chance(1, 2) {
					es = append(es, [2]int{n, b})
				}
				n++
			} else {
				es = append(es, [2]int{a, b})
			}
		}
		pm := r.perm(len(es))
		es2 := make([][2]int, len(es))
		for i, j := range pm {
			es2[i] = es[j]
		}
		es = es2
	case 5: // fishbone: a spine s0 -> ... -> sD, every s(i+1) with an extra source parent f(i) whose edge comes first
		// (a staircase of blocks: SinkColoring's placeBlock needs one round per step)
		D := r.rangeIn(3, max(3, min(12, p.maxN)))
		n = 2*D + 1
		for i := 0; i < D; i++ {
			spine := [2]int{i, i + 1}
			rib := [2]int{D + 1 + i, i + 1}
			if r.chance(3, 4) {
				es = append(es, rib, spine)
			} else {
				es = append(es, spine, rib)
			}
		}
		if r.chance(1, 3) { // a few extra edges
			for x := 0; x < r.rangeIn(1, 3); x++ {
				a, b := r.intn(D), r.intn(D+1)
				if a < b {
					es = append(es, [2]int{a, b})
				}
			}
		}
	case 6: // parallel chains of different lengths between a common source and common sinks, with pendant nodes:
		// the short chains have slack, their inner nodes (in-degree = out-degree) are what the balancing steps move
		k := r.rangeIn(2, 4)
		n = 1 // node 0 = source
		var ends []int
		for c := 0; c < k; c++ {
			L := r.rangeIn(1, max(2, min(6, p.maxN/2)))
			prev := 0
			for i := 0; i < L; i++ {
				es = append(es, [2]int{prev, n})
				prev = n
				n++
			}
			ends = append(ends, prev)
		}
		sinks := r.rangeIn(1, 3)
		for sIdx := 0; sIdx < sinks; sIdx++ {
			for _, e := range ends {
				if sIdx == 0 || r.chance(2, 3) {
					es = append(es, [2]int{e, n})
				}
			}
			n++
		}
		inner := n
		for x := r.intn(5); x > 0; x-- { // pendants change how crowded the layers are
			a := r.intn(inner)
			if r.chance(1, 2) {
				es = append(es, [2]int{a, n})
			} else {
				es = append(es, [2]int{n, a})
			}
			n++
		}
		pm := r.perm(len(es))
		es2 := make([][2]int, len(es))
		for i, j := range pm {
			es2[i] = es[j]
		}
		es = es2
	case 4: // dense small cyclic: many antiparallel pairs on one node (reversal order)
		n = r.rangeIn(2, min(5, p.maxN))
		m := r.rangeIn(2, p.maxM)
		for i := 0; i < m; i++ {
			a, b := 0, r.rangeIn(1, n-1)
			if r.chance(1, 2) {
				a, b = b, a
			}
			if r.chance(1, 4) {
				a, b = r.intn(n), r.intn(n)
				if a == b {
					b = (a + 1) % n
				}
			}
			es = append(es, [2]int{a, b})
		}
	}
	return
}

func adversarialNames(r *rng, n int) []string {
	pool := []string{"V1", "V2", "V3", "V4", "NE0", "NE1", "NE2", "NE3", "", " ", "V0", "NE", "n0", "N1",
		"é世界\U0001F600", strings.Repeat("x", 300), "a\"b\\c", "v1", "0", "-1"}
	if r.chance(1, 3) {
		// names that are prefixes / concatenations of each other: "1"+"12" == "11"+"2", "a"+"bc" == "ab"+"c"
		pool = []string{"1", "11", "12", "2", "21", "112", "121", "a", "ab", "bc", "c", "abc", "b", "V1", "V11", "V"}
	}
	if r.chance(1, 4) {
		// unary names: every two edges whose name lengths add up to the same number have the same concatenation
		pool = nil
		for k := 1; k <= n+2; k++ {
			pool = append(pool, strings.Repeat("1", k))
		}
	}
	pm := r.perm(len(pool))
	out := make([]string, n)
	for i := range out {
		if i < len(pool) {
			out[i] = pool[pm[i]]
		} else {
			out[i] = "m" + strconv.Itoa(i)
		}
	}
	return out
}

func genGraph(r *rng, p gp) (edges [][]string, names []string) {
	kind := p.kind
	if kind < 0 {
		kind = []int{0, 0, 0, 1, 1, 2, 3, 3, 4, 5, 6, 6}[r.intn(12)]
	}
	n, es := genEdgesNum(r, p, kind)
	if p.comps && r.chance(1, 4) {
		// disjoint union, interleaved
		k2 := []int{0, 1, 2, 3}[r.intn(4)]
		q := p
		q.maxN = max(2, p.maxN/2)
		q.maxM = max(1, p.maxM/2)
		n2, es2 := genEdgesNum(r, q, k2)
		if p.selfLoops && r.chance(1, 3) {
			n2, es2 = 1, [][2]int{{0, 0}}
		}
		for _, e := range es2 {
			e2 := [2]int{e[0] + n, e[1] + n}
			pos := r.intn(len(es) + 1)
			es = append(es, [2]int{})
			copy(es[pos+1:], es[pos:])
			es[pos] = e2
		}
		n += n2
	}
	names = make([]string, n)
	if p.names == 1 && r.chance(1, 3) {
		names = adversarialNames(r, n)
	} else {
		lab := r.perm(n)
		for i := range names {
			names[i] = plainName(lab[i])
		}
	}
	for _, e := range es {
		edges = append(edges, []string{names[e[0]], names[e[1]]})
	}
	// only names that occur
	seen := map[string]bool{}
	var used []string
	for _, e := range edges {
		for _, s := range e {
			if !seen[s] {
				seen[s] = true
				used = append(used, s)
			}
		}
	}
	return edges, used
}

// ---------------------------------------------------------------------------------------------
// configurations

type cp struct {
	p1, p2, p4, p5 []int // allowed values
	bk             []int
	sizes          int  // 0: any of none/fixed/map(all/some/none); 1: heterogeneous per-node always
	intGrid        bool // integer sizes and spacing
	lsPos          bool // LayerSpacing > 0
	nsPos          bool // NodeSpacing > 0
	wPos           bool // widths > 0
	virt           int  // 0 never, 1 sometimes, 2 always
	mon            bool
	trace          bool
}

func pick(r *rng, xs []int) int { return xs[r.intn(len(xs))] }

func dy(r *rng, maxQ int, intGrid bool) float64 { // dyadic value k/4, sometimes k/64 (or integer): exact in binary64
	if intGrid {
		return float64(r.intn(maxQ/4 + 1))
	}
	if r.chance(1, 4) {
		return float64(r.intn(maxQ*16+1)) / 64
	}
	return float64(r.intn(maxQ+1)) / 4
}

func genCfg(r *rng, p cp, names []string) *Cfg {
	c := &Cfg{BK: -1, Thor: -1}
	c.P1 = pick(r, p.p1)
	c.P2 = pick(r, p.p2)
	c.P4 = pick(r, p.p4)
	c.P5 = pick(r, p.p5)
	if c.P4 == 4 {
		c.BK = pick(r, p.bk)
	}
	grid := p.intGrid || c.P4 == 3
	// spacings
	switch r.intn(5) {
	case 0: // defaults
	case 1:
		c.NS, c.LS = fs(0), fs(0)
	default:
		c.NS = fs(dy(r, 160, grid))
		c.LS = fs(dy(r, 400, grid))
	}
	if p.lsPos && (c.LS != "" && pf(c.LS) == 0) {
		c.LS = fs(float64(1 + r.intn(80)))
	}
	if p.nsPos && (c.NS != "" && pf(c.NS) == 0) {
		c.NS = fs(float64(1 + r.intn(40)))
	}
	// sizes
	mode := r.intn(6)
	if p.sizes == 1 {
		mode = 3
	}
	sz := func() []string {
		w, h := dy(r, 400, grid), dy(r, 240, grid)
		if r.chance(1, 8) {
			w = 0
		}
		if r.chance(1, 8) {
			h = 0
		}
		if p.wPos && w == 0 {
			w = 1
		}
		return []string{fs(w), fs(h)}
	}
	switch mode {
	case 0: // none
	case 1: // fixed
		c.Fixed = sz()
	case 2: // fixed + map for some
		c.Fixed = sz()
		c.Sizes = map[string][]string{}
		for _, id := range names {
			if r.chance(1, 2) {
				c.Sizes[id] = sz()
			}
		}
	case 3: // map for all
		c.Sizes = map[string][]string{}
		for _, id := range names {
			c.Sizes[id] = sz()
		}
	case 4: // map for some, with X,Y set (must not leak)
		c.Sizes = map[string][]string{}
		for _, id := range names {
			if r.chance(1, 2) {
				s := sz()
				c.Sizes[id] = []string{s[0], s[1], fs(float64(r.intn(50))), fs(float64(r.intn(50)))}
			}
		}
	case 5: // map that covers no node
		c.Sizes = map[string][]string{"\x00none": sz()}
	}
	if p.wPos && c.Sizes == nil && c.Fixed == nil {
		c.Fixed = []string{fs(float64(1 + r.intn(100))), fs(float64(r.intn(60)))}
	}
	if p.wPos && c.Sizes != nil && c.Fixed == nil && mode != 3 {
		c.Fixed = []string{fs(float64(1 + r.intn(100))), fs(float64(r.intn(60)))}
	}
	switch p.virt {
	case 1:
		c.Virt = r.chance(1, 2)
	case 2:
		c.Virt = true
	}
	if !p.wPos && r.chance(1, 16) { // every node of width 0 (ticks), heights kept
		if c.Fixed != nil {
			c.Fixed = []string{fs(0), c.Fixed[1]}
		}
		for k, v := range c.Sizes {
			c.Sizes[k] = []string{fs(0), v[1]}
		}
	}
	if r.chance(1, 4) {
		c.Thor = []int{0, 1, 2, 28, 100}[r.intn(5)]
	}
	c.Mon = p.mon
	c.Trace = p.trace
	return c
}

var allBK = []int{-1, 0, 1, 2, 3}

// generate: the case of a suite; for the geometry suites one layout case in twelve is drawn in a tiny or huge unit (every size and
// spacing multiplied by the same power of two, which is exact): absolute tolerances and thresholds only show there
func generate(suite string, seed uint64, i int) *Case {
	c := generate0(suite, seed, i)
	if c != nil && c.Arg != nil && i%4 == 0 {
		if _, rep := c.Arg["repeat"]; rep {
			c.Arg["optlist"] = 1.0 // one repeat case in four also reuses one option list across calls
		}
	}
	switch suite {
	case "e2e", "c03", "c04", "c05", "c06":
		ru := caseRng(suite+"#unit", seed, i)
		if c != nil && c.Op == "layout" && c.Cfg != nil && c.Cfg.P4 != 3 && c.Cfg.P5 != 3 && ru.chance(1, 12) {
			c.Cfg = scaleCfg(c.Cfg, []int{-40, -30, -30, 30}[ru.intn(4)])
		}
	}
	return c
}

func generate0(suite string, seed uint64, i int) *Case {
	r := caseRng(suite, seed, i)
	id := fmt.Sprintf("%s:%d:%d", suite, seed, i)
	g := gp{maxN: 9, maxM: 14, kind: -1, selfLoops: true, multi: true, comps: true, names: 1}
	if r.chance(1, 12) {
		g.maxN, g.maxM = 30, 50
	}
	switch suite {
	case "e2e": // the whole documented grid except Splines (see known findings) and Greedy-random
		edges, names := genGraph(r, g)
		// p4 = 5 is PositioningNoop (documented "for testing purposes"): no coordinates, but the graph must still come back intact (C02)
		cfg := genCfg(r, cp{p1: []int{0, 1}, p2: []int{0, 1}, p4: []int{0, 1, 2, 3, 4, 0, 1, 2, 3, 4, 5}, bk: allBK, p5: []int{0, 1, 2, 4},
			virt: 1, mon: true, trace: true}, names)
		return &Case{ID: id, Op: "layout", Cfg: cfg, Edges: edges, Arg: map[string]any{"repeat": 2.0, "montoggle": 1.0}}
	case "e2e-rand": // Greedy with random node choice
		edges, names := genGraph(r, g)
		cfg := genCfg(r, cp{p1: []int{2}, p2: []int{0, 1}, p4: []int{0, 1, 2, 3, 4}, bk: allBK, p5: []int{0, 1, 2, 4},
			virt: 1, mon: true, trace: true}, names)
		return &Case{ID: id, Op: "layout", Cfg: cfg, Edges: edges}
	case "e2e-splines":
		edges, names := genGraph(r, g)
		cfg := genCfg(r, cp{p1: []int{0, 1}, p2: []int{0, 1}, p4: []int{0, 1, 2, 3}, bk: allBK, p5: []int{3},
			virt: 1, mon: false, trace: false}, names)
		return &Case{ID: id, Op: "layout", Cfg: cfg, Edges: edges, Arg: map[string]any{"timeout_ms": 8000.0}}
	}
	return generateMore(suite, seed, i, r, id, g)
}
