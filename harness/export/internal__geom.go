//go:build verif

package geom

// exports for the verification harness (compiled in by go build -overlay only)

func VerifSolve3(c []float64) []float64 { return solve3(c) }

func VerifCtrl(c ctrlp) [4]P { return [4]P{c.p0, c.p1, c.p2, c.p3} }

func VerifFit(path []P, barriers []Segment) [][4]P {
	cs := FitSpline(path, P{}, P{}, barriers)
	out := make([][4]P, len(cs))
	for i, c := range cs {
		out[i] = VerifCtrl(c)
	}
	return out
}
