package main

import (
	"math"
	"strconv"
)

type geom2 struct{ x, y float64 }

func scaleStr(s string, k int) string {
	if s == "" {
		return s
	}
	x := pf(s)
	for i := 0; i < k; i++ {
		x *= 2
	}
	for i := 0; i > k; i-- {
		x /= 2
	}
	return fs(x)
}

func scaleCfg(c *Cfg, k int) *Cfg {
	d := *c
	// defaults must be made explicit so that they are scaled too
	if d.NS == "" {
		d.NS = fs(60)
	}
	if d.LS == "" {
		d.LS = fs(150)
	}
	d.NS = scaleStr(d.NS, k)
	d.LS = scaleStr(d.LS, k)
	if c.Fixed != nil {
		d.Fixed = []string{scaleStr(c.Fixed[0], k), scaleStr(c.Fixed[1], k)}
	}
	if c.Sizes != nil {
		d.Sizes = map[string][]string{}
		for id, wh := range c.Sizes {
			d.Sizes[id] = []string{scaleStr(wh[0], k), scaleStr(wh[1], k)}
		}
	}
	return &d
}

// components of an edge list, in order of first appearance
func componentsOf(edges [][]string) [][][]string {
	parent := map[string]string{}
	var find func(string) string
	find = func(a string) string {
		if parent[a] == a {
			return a
		}
		r := find(parent[a])
		parent[a] = r
		return r
	}
	for _, e := range edges {
		for _, s := range e {
			if _, ok := parent[s]; !ok {
				parent[s] = s
			}
		}
		a, b := find(e[0]), find(e[1])
		if a != b {
			parent[a] = b
		}
	}
	order := []string{}
	groups := map[string][][]string{}
	// order by first appearance of a node of the component
	for _, e := range edges {
		for _, s := range e {
			r := find(s)
			if _, ok := groups[r]; !ok {
				groups[r] = nil
				order = append(order, r)
			}
		}
	}
	for _, e := range edges {
		r := find(e[0])
		groups[r] = append(groups[r], e)
	}
	out := [][][]string{}
	for _, r := range order {
		out = append(out, groups[r])
	}
	return out
}

func simpleOnly(edges [][]string) [][]string {
	seen := map[[2]string]bool{}
	var out [][]string
	for _, e := range edges {
		if e[0] == e[1] || seen[[2]string{e[0], e[1]}] || seen[[2]string{e[1], e[0]}] {
			continue
		}
		seen[[2]string{e[0], e[1]}] = true
		out = append(out, e)
	}
	return out
}

func usedNames(edges [][]string) []string {
	seen := map[string]bool{}
	var used []string
	for _, e := range edges {
		for _, s := range e {
			if !seen[s] {
				seen[s] = true
				used = append(used, s)
			}
		}
	}
	return used
}

var sizeAware = []int{0, 1, 2, 3}

func generateMore(suite string, seed uint64, i int, r *rng, id string, g gp) *Case {
	lay := func(cfg *Cfg, edges [][]string) *Case {
		return &Case{ID: id, Op: "layout", Cfg: cfg, Edges: edges}
	}
	switch suite {
	case "c03": // bands and flags: both breakers, both layerers, all positioners, LS > 0, heterogeneous heights
		edges, names := genGraph(r, g)
		cfg := genCfg(r, cp{p1: []int{0, 1, 2}, p2: []int{0, 1}, p4: []int{0, 1, 2, 3, 4}, bk: allBK, p5: []int{0, 1, 2, 4}, sizes: 1, lsPos: true, trace: true, mon: true}, names)
		return lay(cfg, edges)
	case "c04": // size-aware positioners, helper nodes visible half of the time
		edges, names := genGraph(r, g)
		cfg := genCfg(r, cp{p1: []int{0, 1}, p2: []int{0, 1}, p4: sizeAware, p5: []int{0, 1, 4}, sizes: 1, virt: 1, trace: true, mon: true}, names)
		return lay(cfg, edges)
	case "c05", "c06": // long edges, reversed edges, every routing style (Splines apart)
		g.kind = []int{3, 3, 0, 4}[r.intn(4)]
		edges, names := genGraph(r, g)
		cfg := genCfg(r, cp{p1: []int{0, 1}, p2: []int{0, 1}, p4: sizeAware, p5: []int{0, 1, 2}, sizes: 1, virt: 1, trace: true, mon: true}, names)
		return lay(cfg, edges)
	case "c10-big": // large components (66..150 nodes): a long backbone listed first, then chords and hanging nodes that need
		// pivots on tree edges late in the edge list; sometimes everything shuffled
		L := r.rangeIn(66, 120)
		var es [][2]int
		for i := 0; i+1 < L; i++ {
			es = append(es, [2]int{i, i + 1})
		}
		n := L
		for x := r.rangeIn(2, 12); x > 0; x-- {
			a, b := r.intn(L), r.intn(L)
			if a == b {
				continue
			}
			if a > b && r.chance(4, 5) {
				a, b = b, a
			}
			switch r.intn(5) {
			case 3, 4: // a new node below a with several long edges further down: the initial layering puts it right under a,
				// the optimum pulls it down (a pivot on the tree edge a -> new node, which comes late in the edge list)
				if a > b {
					a, b = b, a
				}
				es = append(es, [2]int{a, n}, [2]int{n, b})
				for y := r.rangeIn(1, 2); y > 0; y-- {
					c := b + r.intn(L-b)
					es = append(es, [2]int{n, c})
				}
				n++
			case 0:
				es = append(es, [2]int{a, b})
			case 1: // a detour through a new node
				es = append(es, [2]int{a, n}, [2]int{n, b})
				n++
			case 2: // two new nodes hanging between a and b
				es = append(es, [2]int{a, n}, [2]int{n, n + 1}, [2]int{b, n + 1})
				n += 2
			}
		}
		if r.chance(1, 3) {
			pm := r.perm(len(es))
			es2 := make([][2]int, len(es))
			for i, j := range pm {
				es2[i] = es[j]
			}
			es = es2
		}
		var edges [][]string
		for _, e := range es {
			edges = append(edges, []string{plainName(e[0]), plainName(e[1])})
		}
		cfg := genCfg(r, cp{p1: []int{0, 1}, p2: []int{0}, p4: []int{1}, p5: []int{4}, trace: true, mon: true}, usedNames(edges))
		cfg.Thor = -1
		return lay(cfg, edges)
	case "c10-mid": // sparse acyclic graphs of 60..80 nodes, about 1.5 edges per node: long runs of degenerate pivots before an
		// improving one, re-hung subtrees (dense graphs of this size cost minutes in the ordering phase: thousands of helper nodes)
		n := r.rangeIn(60, 80)
		m := n + n/2
		var es [][2]int
		for k := 0; k < m; k++ {
			a, b := r.intn(n), r.intn(n)
			if a == b {
				continue
			}
			if a > b {
				a, b = b, a
			}
			es = append(es, [2]int{a, b})
		}
		for i := 0; i+1 < n; i++ { // keep most of it in one component
			if r.chance(1, 4) {
				es = append(es, [2]int{i, i + 1})
			}
		}
		var edges [][]string
		for _, e := range es {
			edges = append(edges, []string{plainName(e[0]), plainName(e[1])})
		}
		cfg := genCfg(r, cp{p1: []int{0, 1}, p2: []int{0}, p4: []int{1}, p5: []int{4}, trace: true, mon: true}, usedNames(edges))
		cfg.Thor = -1
		return lay(cfg, edges)
	case "c10": // network simplex layering, graphs that need pivots
		g.kind = []int{3, 3, 1, 1, 0}[r.intn(5)]
		if r.chance(2, 3) {
			g.maxN, g.maxM = 14, 28
		}
		g.selfLoops = r.chance(1, 4)
		edges, names := genGraph(r, g)
		cfg := genCfg(r, cp{p1: []int{0, 1}, p2: []int{0}, p4: []int{1}, p5: []int{4}, trace: true, mon: true}, names)
		cfg.Thor = []int{-1, -1, 28, 1, 100}[r.intn(5)]
		return lay(cfg, edges)
	case "e2e-huge": // sizes close to the top of the binary64 range: sums stay finite, careless intermediate expressions do not
		k := r.rangeIn(10, 15)
		var edges [][]string
		for i := 0; i < k; i++ {
			edges = append(edges, []string{"r", "c" + strconv.Itoa(i)})
			if r.chance(1, 4) {
				edges = append(edges, []string{"c" + strconv.Itoa(i), "d" + strconv.Itoa(r.intn(3))})
			}
		}
		cfg := genCfg(r, cp{p1: []int{0, 1}, p2: []int{0, 1}, p4: []int{0, 1, 2}, p5: []int{0, 1, 2}, virt: 1}, usedNames(edges))
		cfg.Sizes = nil
		cfg.Fixed = []string{fs(1e307), fs(float64(1 + r.intn(60)))}
		cfg.NS = fs(float64(r.intn(40)))
		return &Case{ID: id, Op: "layout", Cfg: cfg, Edges: edges, Arg: map[string]any{"finiteonly": 1.0}}
	case "e2e-dec": // C01: sizes and spacings that are not dyadic (decimals, thirds, tiny and huge values); no exact model
		// comparison on these - the question is only whether every call returns
		edges, names := genGraph(r, g)
		cfg := genCfg(r, cp{p1: []int{0, 1}, p2: []int{0, 1}, p4: []int{0, 1, 2, 3, 4}, bk: allBK, p5: []int{0, 1, 2, 4}, virt: 1, mon: true}, names)
		dec := func(s string) string {
			x := math.Floor(pf(s))
			switch r.intn(6) {
			case 0:
				return fs(x + float64(1+r.intn(9))/10)
			case 1:
				return fs(x + float64(1+r.intn(99))/100)
			case 2:
				return fs((x + 1) / 3)
			case 3:
				return fs(x*1e-3 + 1e-4)
			case 4:
				return fs(x*1e5 + 0.7)
			}
			return fs(x + 0.7)
		}
		if cfg.NS != "" && pf(cfg.NS) != 0 {
			cfg.NS = dec(cfg.NS)
		}
		if cfg.LS != "" && pf(cfg.LS) != 0 {
			cfg.LS = dec(cfg.LS)
		}
		if cfg.Fixed != nil {
			cfg.Fixed = []string{dec(cfg.Fixed[0]), dec(cfg.Fixed[1])}
		}
		for k, v := range cfg.Sizes {
			cfg.Sizes[k] = []string{dec(v[0]), dec(v[1])}
		}
		if cfg.Fixed == nil && cfg.Sizes == nil {
			cfg.Fixed = []string{dec("120p0"), dec("40p0")}
		}
		// repeated and monitor-toggled calls are compared bit for bit by the harness: that needs no exact model
		return &Case{ID: id, Op: "layout", Cfg: cfg, Edges: edges, Arg: map[string]any{"repeat": 2.0, "montoggle": 1.0}}
	case "c11-deep", "e2e-big", "e2e-wide": // more than 64 layers (a long spine with branches, rejoining chords and pendants) or very wide layers
		var es [][2]int
		n := 0
		if suite == "e2e-big" && r.chance(1, 5) { // a handful of nodes joined by 60..200 parallel, antiparallel and self-loop edges
			n = r.rangeIn(2, 4)
			for m := r.rangeIn(60, 200); m > 0; m-- {
				a, b := r.intn(n), r.intn(n)
				if a == b && !r.chance(1, 6) {
					b = (a + 1) % n
				}
				es = append(es, [2]int{a, b})
			}
		} else if suite == "e2e-wide" { // layers of more than 256 nodes: 257..330 sources into a hub, the hub into as many sinks
			w := r.rangeIn(257, 290)
			for i := 1; i <= w; i++ {
				es = append(es, [2]int{i, 0})
			}
			n = w + 1
			if r.chance(1, 2) {
				w2 := r.rangeIn(257, 290)
				for i := 0; i < w2; i++ {
					es = append(es, [2]int{0, n})
					n++
				}
			}
			for x := r.rangeIn(0, 6); x > 0; x-- { // a few more edges between the wide layers and new nodes
				a := 1 + r.intn(n-1)
				if r.chance(1, 2) {
					es = append(es, [2]int{n, a})
				} else {
					es = append(es, [2]int{a, n})
				}
				n++
			}
		} else if suite == "c11-deep" || r.chance(2, 3) {
			L := r.rangeIn(66, 130)
			for i := 0; i+1 < L; i++ {
				es = append(es, [2]int{i, i + 1})
			}
			n = L
			for x := r.rangeIn(0, 10); x > 0; x-- {
				a := r.intn(L)
				switch r.intn(3) {
				case 0: // side chain hanging off the spine
					prev := a
					for y := r.rangeIn(1, 5); y > 0; y-- {
						es = append(es, [2]int{prev, n})
						prev = n
						n++
					}
				case 1: // forward chord
					b := r.intn(L)
					if a > b {
						a, b = b, a
					}
					if a != b {
						es = append(es, [2]int{a, b})
					}
				case 2: // extra source feeding the spine
					es = append(es, [2]int{n, a})
					n++
				}
			}
		} else { // three or four layers with 30..70 nodes each
			layers := r.rangeIn(3, 4)
			var prevL []int
			for l := 0; l < layers; l++ {
				w := r.rangeIn(30, 70)
				var cur []int
				for i := 0; i < w; i++ {
					cur = append(cur, n)
					n++
				}
				if l > 0 {
					for _, c := range cur {
						es = append(es, [2]int{prevL[r.intn(len(prevL))], c})
						if r.chance(1, 4) {
							es = append(es, [2]int{prevL[r.intn(len(prevL))], c})
						}
					}
				}
				prevL = cur
			}
		}
		if r.chance(1, 2) {
			pm := r.perm(len(es))
			es2 := make([][2]int, len(es))
			for i, j := range pm {
				es2[i] = es[j]
			}
			es = es2
		}
		var edges [][]string
		for _, e := range es {
			edges = append(edges, []string{plainName(e[0]), plainName(e[1])})
		}
		c := cp{p1: []int{0, 1}, p2: []int{0, 1}, p4: []int{0, 1, 2, 4}, bk: allBK, p5: []int{0, 1, 2, 4}, virt: 1, trace: true, mon: true}
		if suite == "c11-deep" {
			c = cp{p1: []int{0, 1}, p2: []int{1}, p4: []int{1}, p5: []int{4}, trace: true, mon: true}
		}
		cfg := genCfg(r, c, usedNames(edges))
		return lay(cfg, edges)
	case "c11":
		edges, names := genGraph(r, g)
		cfg := genCfg(r, cp{p1: []int{0, 1}, p2: []int{1}, p4: []int{1}, p5: []int{4}, trace: true, mon: true}, names)
		return lay(cfg, edges)
	case "c12-wide": // two adjacent layers of 65..90 nodes each with a random bipartite edge set: positions beyond 64 in BOTH layers
		w1, w2 := r.rangeIn(65, 90), r.rangeIn(65, 90)
		var edges [][]string
		for b := 0; b < w2; b++ {
			for x := r.rangeIn(1, 2); x > 0; x-- {
				edges = append(edges, []string{"t" + strconv.Itoa(r.intn(w1)), "b" + strconv.Itoa(b)})
			}
		}
		for a := 0; a < w1; a++ {
			edges = append(edges, []string{"t" + strconv.Itoa(a), "b" + strconv.Itoa(r.intn(w2))})
		}
		edges = simpleOnly(edges)
		cfg := genCfg(r, cp{p1: []int{0, 1}, p2: []int{0, 1}, p4: []int{0, 1, 2}, p5: []int{0}, nsPos: true, wPos: false, trace: false, mon: true}, usedNames(edges))
		c := lay(cfg, edges)
		c.Arg = map[string]any{"timeout_ms": 120000.0}
		return c
	case "c12", "c12-deep": // simple graphs, NodeSpacing > 0, polyline; deep: more than 64 layers, wide layers
		g.selfLoops, g.multi = false, false
		var edges [][]string
		if suite == "c12-deep" {
			L := r.rangeIn(66, 80)
			k := r.rangeIn(2, 3)
			for c := 0; c < k; c++ {
				for j := 0; j+1 < L; j++ {
					edges = append(edges, []string{"c" + strconv.Itoa(c) + "_" + strconv.Itoa(j), "c" + strconv.Itoa(c) + "_" + strconv.Itoa(j+1)})
				}
			}
			for x := 0; x < r.rangeIn(2, 6); x++ {
				a, b := r.intn(k), r.intn(k)
				j := r.intn(L - 1)
				if a != b {
					edges = append(edges, []string{"c" + strconv.Itoa(a) + "_" + strconv.Itoa(j), "c" + strconv.Itoa(b) + "_" + strconv.Itoa(j+1)})
				}
			}
		} else {
			edges, _ = genGraph(r, g)
		}
		edges = simpleOnly(edges)
		if len(edges) == 0 {
			edges = [][]string{{"a", "b"}}
		}
		cfg := genCfg(r, cp{p1: []int{0, 1}, p2: []int{0, 1}, p4: []int{0, 1, 2, 3}, p5: []int{0}, nsPos: true, wPos: false, trace: suite == "c12", mon: true}, usedNames(edges))
		if suite == "c12-deep" && cfg.P4 == 3 {
			cfg.P4 = 0
		}
		c := lay(cfg, edges)
		if suite == "c12-deep" {
			cfg.P2 = 0
			c.Arg = map[string]any{"timeout_ms": 120000.0}
		}
		return c
	case "c13", "c13-big": // rooted trees, any edge order; big: 40..160 nodes, narrow and wide nodes mixed, small spacing
		g.kind = 2
		g.comps = false
		g.names = 0
		if r.chance(1, 6) {
			g.maxN = 40
		}
		if suite == "c13-big" {
			g.maxN = 160
		}
		edges, names := genGraph(r, g)
		if suite == "c13-big" {
			for len(names) < 40 {
				edges, names = genGraph(r, g)
			}
			if r.chance(1, 3) { // a wide tree: two adjacent inner layers of more than 32 nodes each (the wider one below), leaves under them
				a := r.rangeIn(33, 45)
				b := a + r.rangeIn(1, 30)
				d := r.rangeIn(1, 5)
				nm := func(k int) string { return "w" + strconv.Itoa(k) }
				edges = nil
				for j := 1; j <= a; j++ {
					edges = append(edges, []string{nm(0), nm(j)})
				}
				for j := 0; j < b; j++ {
					edges = append(edges, []string{nm(1 + r.intn(a)), nm(1 + a + j)})
				}
				for j := 0; j < d; j++ {
					edges = append(edges, []string{nm(1 + a + r.intn(b)), nm(1 + a + b + j)})
				}
				if r.chance(1, 3) { // in-tree
					for j := range edges {
						edges[j][0], edges[j][1] = edges[j][1], edges[j][0]
					}
				}
				for j := len(edges) - 1; j > 0; j-- {
					k := r.intn(j + 1)
					edges[j], edges[k] = edges[k], edges[j]
				}
				names = nil
				seen := map[string]bool{}
				for _, e := range edges {
					for _, x := range e {
						if !seen[x] {
							seen[x] = true
							names = append(names, x)
						}
					}
				}
			}
		}
		// NodeSpacing 0 is allowed in a part of the cases: coinciding points touch, they do not cross
		cfg := genCfg(r, cp{p1: []int{0, 1}, p2: []int{0, 1}, p4: []int{0, 1, 2, 3}, p5: []int{0}, nsPos: !r.chance(1, 4), trace: true, mon: true}, names)
		if suite == "c13-big" && cfg.P4 != 3 {
			cfg.Fixed = nil
			cfg.Sizes = map[string][]string{}
			for _, nm := range names {
				w := 10.0
				if r.chance(1, 6) {
					w = 200
				}
				cfg.Sizes[nm] = []string{fs(w), fs(20)}
			}
			cfg.NS = fs(10)
		}
		return lay(cfg, edges)
	case "c14-deep": // depth-first search paths of more than 32 nodes, several times over: k long chains under one root, cycles inside
		// the chains, cross edges from later chains into finished nodes of earlier ones (not back edges: they must stay as drawn)
		k := r.rangeIn(2, 3)
		var edges [][]string
		lens := make([]int, k)
		nm := func(c, i int) string { return "c" + strconv.Itoa(c) + "_" + strconv.Itoa(i) }
		for c := 0; c < k; c++ {
			lens[c] = r.rangeIn(34, 60)
			edges = append(edges, []string{"root", nm(c, 0)})
			for i := 0; i+1 < lens[c]; i++ {
				edges = append(edges, []string{nm(c, i), nm(c, i+1)})
			}
			for x := r.rangeIn(1, 3); x > 0; x-- { // a back edge inside the chain
				i := r.rangeIn(1, lens[c]-1)
				j := r.intn(i)
				edges = append(edges, []string{nm(c, i), nm(c, j)})
			}
		}
		for x := r.rangeIn(2, 6); x > 0; x-- { // cross edges from a later chain into an earlier one
			c2 := r.rangeIn(1, k-1)
			c1 := r.intn(c2)
			edges = append(edges, []string{nm(c2, r.intn(lens[c2])), nm(c1, r.intn(lens[c1]))})
		}
		cfg := genCfg(r, cp{p1: []int{1}, p2: []int{0, 1}, p4: []int{1}, p5: []int{1}, trace: true, mon: true}, usedNames(edges))
		c := lay(cfg, edges)
		c.Arg = map[string]any{"timeout_ms": 60000.0}
		return c
	case "c14": // depth-first breaker on cyclic multigraphs; both breakers on acyclic ones
		g.kind = []int{0, 4, 1, 1}[r.intn(4)]
		edges, names := genGraph(r, g)
		cfg := genCfg(r, cp{p1: []int{0, 1}, p2: []int{0, 1}, p4: []int{1}, p5: []int{1}, trace: true, mon: true}, names)
		if g.kind != 1 {
			cfg.P1 = 1
		}
		return lay(cfg, edges)
	case "c16":
		g.comps = false
		edges, names := genGraph(r, g)
		cfg := genCfg(r, cp{p1: []int{0, 1}, p2: []int{0, 1}, p4: []int{1, 2}, p5: []int{0, 1, 4}, sizes: 1, virt: 2, trace: true, mon: true}, names)
		if r.chance(1, 8) { // the same drawing in a tiny or huge unit (exact: a power of two): widths around 1e-10, 1e-7 or 1e11
			cfg = scaleCfg(cfg, []int{-40, -30, -30, 30}[r.intn(4)])
		}
		if r.chance(1, 8) { // OrderingNoop: LayerPos stays 0 everywhere, long edges are not cut; the bands must still be packed exactly
			cfg.P3 = 1
		}
		if r.chance(1, 25) { // a single node with a self-loop whose size entry also carries X and Y (as a Size kept from an earlier layout does)
			edges = [][]string{{"solo", "solo"}}
			cfg.Sizes = map[string][]string{"solo": {fs(float64(1 + r.intn(80))), fs(float64(1 + r.intn(40))), fs(float64(1 + r.intn(50))), fs(float64(1 + r.intn(50)))}}
		}
		return lay(cfg, edges)
	case "rename": // C08
		g.names = 0
		g.kind = []int{3, 0, 3, 1}[r.intn(4)]
		edges, names := genGraph(r, g)
		cfg := genCfg(r, cp{p1: []int{0, 1}, p2: []int{0, 1}, p4: []int{0, 1, 2, 3, 4}, bk: allBK, p5: []int{0, 1, 2, 4}, virt: 1}, names)
		adv := adversarialNames(r, len(names))
		m := map[string]string{}
		mm := map[string]any{}
		for k, n := range names {
			m[n] = adv[k]
			mm[n] = adv[k]
		}
		var e2 [][]string
		for _, e := range edges {
			e2 = append(e2, []string{m[e[0]], m[e[1]]})
		}
		cfg2 := *cfg
		if cfg.Sizes != nil {
			cfg2.Sizes = map[string][]string{}
			for k, v := range cfg.Sizes {
				if nk, ok := m[k]; ok {
					cfg2.Sizes[nk] = v
				} else {
					cfg2.Sizes[k] = v
				}
			}
		}
		return &Case{ID: id, Op: "multi", Arg: map[string]any{"rel": "rename", "map": mm},
			Runs: []Run{{cfg, edges}, {&cfg2, e2}}}
	case "union-big": // C09: one component of 51..70 nodes listed first, then one or two small ones (a decision taken for a big component
		// must not stick for the components processed after it); the network simplex positioner in most cases
		var all [][]string
		n0 := r.rangeIn(51, 70)
		for i := 1; i < n0; i++ {
			p := i - 1
			if r.chance(1, 3) {
				p = r.intn(i)
			}
			all = append(all, []string{"A" + strconv.Itoa(p), "A" + strconv.Itoa(i)})
		}
		for c := r.rangeIn(1, 2); c > 0; c-- {
			g.comps = false
			g.maxN, g.maxM = 6, 9
			es, _ := genGraph(r, g)
			pre := string(rune('a'+c)) + "_"
			for _, e := range es {
				all = append(all, []string{pre + e[0], pre + e[1]})
			}
		}
		cfg := genCfg(r, cp{p1: []int{0, 1}, p2: []int{0, 1}, p4: []int{3, 3, 3, 0, 4}, bk: allBK, p5: []int{0, 1, 2, 4}, virt: 1, sizes: 1}, usedNames(all))
		runs := []Run{{cfg, all}}
		for _, comp := range componentsOf(all) {
			runs = append(runs, Run{cfg, comp})
		}
		return &Case{ID: id, Op: "multi", Arg: map[string]any{"rel": "union"}, Runs: runs}
	case "union-many": // C09: more than 100 nodes in total, spread over dozens of small components (whole-input quantities leaking
		// into a component: thresholds on len(G.Nodes), budgets, scratch sizes)
		k := r.rangeIn(34, 45)
		var all [][]string
		for c := 0; c < k; c++ {
			pre := "c" + strconv.Itoa(c) + "_"
			n := r.rangeIn(2, 4)
			if c == 0 {
				n = r.rangeIn(5, 8)
			}
			for i := 1; i < n; i++ {
				all = append(all, []string{pre + strconv.Itoa(r.intn(i)), pre + strconv.Itoa(i)})
			}
			if c == 0 {
				all = append(all, []string{pre + "0", pre + strconv.Itoa(n-1)}, []string{pre + "1", pre + strconv.Itoa(n-1)})
			}
		}
		if r.chance(1, 2) {
			pm := r.perm(len(all))
			a2 := make([][]string, len(all))
			for i, j := range pm {
				a2[i] = all[j]
			}
			all = a2
		}
		cfg := genCfg(r, cp{p1: []int{0, 1}, p2: []int{0, 1}, p4: []int{0, 1, 2, 3, 4}, bk: allBK, p5: []int{0, 1, 2, 4}, virt: 1}, usedNames(all))
		runs := []Run{{cfg, all}}
		for _, comp := range componentsOf(all) {
			runs = append(runs, Run{cfg, comp})
		}
		return &Case{ID: id, Op: "multi", Arg: map[string]any{"rel": "union"}, Runs: runs}
	case "union", "union-dec": // C09 (union-dec: sizes and spacings that are NOT dyadic - compared up to rounding)
		g.comps = false
		g.maxN, g.maxM = 6, 9
		k := r.rangeIn(2, 3)
		var parts [][][]string
		var all [][]string
		for c := 0; c < k; c++ {
			var es [][]string
			if g.selfLoops && r.chance(1, 5) {
				es = [][]string{{"s", "s"}}
			} else {
				es, _ = genGraph(r, g)
			}
			pre := string(rune('a'+c)) + "_"
			var pe [][]string
			for _, e := range es {
				pe = append(pe, []string{pre + e[0], pre + e[1]})
			}
			parts = append(parts, pe)
		}
		// interleave, keeping each part's own order
		idx := make([]int, k)
		left := 0
		for _, p := range parts {
			left += len(p)
		}
		for left > 0 {
			c := r.intn(k)
			if idx[c] < len(parts[c]) {
				all = append(all, parts[c][idx[c]])
				idx[c]++
				left--
			}
		}
		cfg := genCfg(r, cp{p1: []int{0, 1}, p2: []int{0, 1}, p4: []int{0, 1, 2, 3, 4}, bk: allBK, p5: []int{0, 1, 2, 4}, virt: 1}, usedNames(all))
		arg := map[string]any{"rel": "union"}
		if suite == "union-dec" {
			if cfg.P4 == 3 {
				cfg.P4 = []int{0, 1, 2, 4}[r.intn(4)]
				if cfg.P4 == 4 {
					cfg.BK = pick(r, allBK)
				}
			}
			dec := func(s string) string { // one or two decimals: not representable in binary
				x := math.Floor(pf(s))
				if r.chance(1, 2) {
					return fs(x + float64(1+r.intn(9))/10)
				}
				return fs(x + float64(1+r.intn(99))/100)
			}
			if cfg.NS != "" && pf(cfg.NS) != 0 {
				cfg.NS = dec(cfg.NS)
			}
			if cfg.LS != "" && pf(cfg.LS) != 0 {
				cfg.LS = dec(cfg.LS)
			}
			if cfg.Fixed != nil {
				cfg.Fixed = []string{dec(cfg.Fixed[0]), dec(cfg.Fixed[1])}
			}
			for k, v := range cfg.Sizes {
				cfg.Sizes[k] = []string{dec(v[0]), dec(v[1])}
			}
			arg["approx"] = 1.0
		}
		runs := []Run{{cfg, all}}
		for _, comp := range componentsOf(all) {
			runs = append(runs, Run{cfg, comp})
		}
		return &Case{ID: id, Op: "multi", Arg: arg, Runs: runs}
	case "scale": // C17
		edges, names := genGraph(r, g)
		// half of the cases use Brandes-Koepf, and half of those its default (balanced + verified) mode: the other positioners are
		// covered end to end by C17_layoutModelS_scale, the four candidate layouts and their selection are not
		cfg := genCfg(r, cp{p1: []int{0, 1}, p2: []int{0, 1}, p4: []int{4, 4, 4, 0, 1, 2}, bk: []int{-1, -1, -1, -1, 0, 1, 2, 3}, p5: []int{0, 1, 2}, virt: 1}, names)
		k := r.rangeIn(-6, 6)
		if k == 0 {
			k = 1
		}
		base := scaleCfg(cfg, 0)
		if r.chance(1, 6) { // the whole drawing in a tiny or huge unit (still exact: powers of two): widths around 2^-12 or 2^24..2^36
			base = scaleCfg(base, []int{-20, 16, 20, 22, 24, 26, 28}[r.intn(7)])
		}
		return &Case{ID: id, Op: "multi", Arg: map[string]any{"rel": "scale", "k": float64(k)},
			Runs: []Run{{base, edges}, {scaleCfg(base, k), edges}}}
	case "c18bk": // C18: the positioner with a monitor-side verification step, heterogeneous widths, helper nodes
		g.kind = []int{3, 3, 1, 0}[r.intn(4)]
		edges, names := genGraph(r, g)
		cfg := genCfg(r, cp{p1: []int{0, 1}, p2: []int{0, 1}, p4: []int{4}, bk: []int{-1}, p5: []int{0, 1, 2}, sizes: 1, mon: r.chance(1, 2)}, names)
		return &Case{ID: id, Op: "layout", Cfg: cfg, Edges: edges, Arg: map[string]any{"montoggle": 1.0}}
	case "c19", "c19-a", "c20":
		// corridor of vertically stacked rectangles, consecutive ones share a boundary segment of positive length
		k := r.rangeIn(1, 6)
		if suite == "c20" && r.chance(1, 4) { // long corridors: more than 24 boundary segments
			k = r.rangeIn(7, 12)
		}
		half := func(lo, hi int) float64 { return float64(r.rangeIn(2*lo, 2*hi)) / 2 }
		var rects []any
		var L, R, T, B []float64
		y := float64(r.intn(4))
		l, rr := float64(r.intn(8)), 0.0
		rr = l + float64(r.rangeIn(1, 8))
		for j := 0; j < k; j++ {
			h := float64(r.rangeIn(1, 6))
			if j > 0 {
				// new x range overlapping the previous one on a segment of positive length
				for {
					nl := float64(r.rangeIn(0, 14))
					nr := nl + float64(r.rangeIn(1, 10))
					switch r.intn(6) { // equal edges are a class of their own
					case 0:
						nl = l
					case 1:
						nr = rr
					case 2:
						nl, nr = l, rr
					}
					if nr > nl && math.Min(nr, rr) > math.Max(nl, l) {
						l, rr = nl, nr
						break
					}
				}
			}
			L, R, T, B = append(L, l), append(R, rr), append(T, y), append(B, y+h)
			rects = append(rects, []any{fs(l), fs(y), fs(rr), fs(y + h)})
			y += h
		}
		cls := []string{"A", "A", "B", "C"}[r.intn(4)]
		if suite == "c19-a" || suite == "c20" {
			cls = "A"
		}
		var p1, p2 geom2
		last := k - 1
		switch cls {
		case "A": // the way phase 5 calls it: on the top edge of the first / bottom edge of the last rectangle, not on a corner
			p1 = geom2{L[0] + (R[0]-L[0])*float64(r.rangeIn(1, 7))/8, T[0]}
			p2 = geom2{L[last] + (R[last]-L[last])*float64(r.rangeIn(1, 7))/8, B[last]}
		case "B": // strictly inside
			p1 = geom2{L[0] + (R[0]-L[0])*float64(r.rangeIn(1, 7))/8, T[0] + (B[0]-T[0])*float64(r.rangeIn(1, 7))/8}
			p2 = geom2{L[last] + (R[last]-L[last])*float64(r.rangeIn(1, 7))/8, T[last] + (B[last]-T[last])*float64(r.rangeIn(1, 7))/8}
		default: // anywhere on the closed rectangles, including corners and the shared boundary
			p1 = geom2{L[0] + (R[0]-L[0])*float64(r.rangeIn(0, 4))/4, T[0] + (B[0]-T[0])*float64(r.rangeIn(0, 4))/4}
			p2 = geom2{L[last] + (R[last]-L[last])*float64(r.rangeIn(0, 4))/4, T[last] + (B[last]-T[last])*float64(r.rangeIn(0, 4))/4}
		}
		_ = half
		// the whole picture in another unit: exact power-of-two scaling (tiny or huge corridors)
		if suite != "c20" && r.chance(1, 3) {
			k := []int{-24, -20, -17, -10, 10, 20}[r.intn(6)]
			sc := func(x float64) float64 { return math.Ldexp(x, k) }
			for j := range rects {
				rects[j] = []any{fs(sc(L[j])), fs(sc(T[j])), fs(sc(R[j])), fs(sc(B[j]))}
			}
			p1 = geom2{sc(p1.x), sc(p1.y)}
			p2 = geom2{sc(p2.x), sc(p2.y)}
		}
		op := "shortest"
		if suite == "c20" {
			op = "fitspline"
		}
		return &Case{ID: id, Op: op, Arg: map[string]any{"rects": rects, "p1": []any{fs(p1.x), fs(p1.y)}, "p2": []any{fs(p2.x), fs(p2.y)},
			"cls": cls, "timeout_ms": 4000.0}}
	case "c19-long": // C19: long corridors (8..24 rectangles): convex staircases keep many corners on one side of the funnel at once
		k := r.rangeIn(8, 24)
		var rc [][4]float64
		y := 0.0
		switch r.intn(3) {
		case 0, 1: // one side steps in one direction by shrinking (convex chain) or arbitrary amounts; the other side is far away
			shrinking := r.chance(2, 3)
			inc := float64(r.rangeIn(30, 60))
			x := 0.0
			far := 0.0
			var xs []float64
			for j := 0; j < k; j++ {
				xs = append(xs, x)
				if shrinking {
					x += inc
					if inc > 5 {
						inc -= float64(r.rangeIn(2, 6))
					}
					if inc < 1 {
						inc = 1
					}
				} else {
					x += float64(r.rangeIn(1, 40))
				}
			}
			far = x + float64(r.rangeIn(50, 300))
			for j := 0; j < k; j++ {
				h := float64(r.rangeIn(5, 30))
				rc = append(rc, [4]float64{xs[j], y, far, y + h})
				y += h
			}
		default: // free stack
			l, rr := float64(r.intn(40)), 0.0
			rr = l + float64(r.rangeIn(5, 80))
			for j := 0; j < k; j++ {
				h := float64(r.rangeIn(2, 30))
				if j > 0 {
					for {
						nl := l + float64(r.rangeIn(-30, 30))
						nr := nl + float64(r.rangeIn(5, 80))
						if nr > nl && math.Min(nr, rr) > math.Max(nl, l) {
							l, rr = nl, nr
							break
						}
					}
				}
				rc = append(rc, [4]float64{l, y, rr, y + h})
				y += h
			}
		}
		if r.chance(1, 2) { // mirror left/right
			for j := range rc {
				rc[j][0], rc[j][2] = -rc[j][2], -rc[j][0]
			}
		}
		if r.chance(1, 2) { // turn upside down
			n := len(rc)
			out := make([][4]float64, n)
			for j := range rc {
				out[n-1-j] = [4]float64{rc[j][0], y - rc[j][3], rc[j][2], y - rc[j][1]}
			}
			rc = out
		}
		f, z := rc[0], rc[len(rc)-1]
		p1 := geom2{f[0] + (f[2]-f[0])*float64(r.rangeIn(1, 31))/32, f[1]}
		p2 := geom2{z[0] + (z[2]-z[0])*float64(r.rangeIn(1, 31))/32, z[3]}
		var rects []any
		for _, x := range rc {
			rects = append(rects, []any{fs(x[0]), fs(x[1]), fs(x[2]), fs(x[3])})
		}
		return &Case{ID: id, Op: "shortest", Arg: map[string]any{"rects": rects, "p1": []any{fs(p1.x), fs(p1.y)}, "p2": []any{fs(p2.x), fs(p2.y)},
			"cls": "A", "timeout_ms": 4000.0}}
	case "c20-shape": // C20: corridors at drawing scale (quarter-unit coordinates), shapes in which a piece can leave the union
		q := func(lo, hi int) float64 { return float64(r.rangeIn(4*lo, 4*hi)) / 4 }
		var rc [][4]float64 // l, t, r, b
		var p1, p2 geom2
		switch r.intn(3) {
		case 0: // almost straight: the chord from start to end passes a reflex corner at a tiny distance on its outer side
			h1, h2 := q(100, 600), q(100, 600)
			x1, x2 := q(60, 200), q(210, 400) // start x, end x
			if r.chance(1, 2) {
				x1, x2 = x2, x1
			}
			cx := x1 + (x2-x1)*h1/(h1+h2) // chord x at the shared boundary
			off := []float64{0.0625, 0.125, 0.25, 0.3, 0.5, 0.75, 1, 1.5, 2.25, 3}[r.intn(10)]
			if x2 > x1 { // the lower rectangle starts right of the chord: the path bends around its top-left corner
				rc = [][4]float64{{0, 0, cx + q(50, 200), h1}, {cx + off, h1, x2 + q(50, 300), h1 + h2}}
			} else { // mirrored: the lower rectangle ends left of the chord
				rc = [][4]float64{{cx - q(50, 200), 0, 500, h1}, {x2 - q(10, 100), h1, cx - off, h1 + h2}}
			}
			p1, p2 = geom2{x1, 0}, geom2{x2, h1 + h2}
		case 1: // a passage: wide top, a side step into a tall rectangle, a narrow neck, then a shallow (or deep) wide bottom
			tl, tw, th := q(100, 200), q(40, 80), q(30, 130)
			sx := tl + tw - q(1, 4) // the step overlaps the top rectangle on 1..4 units
			sw, sh := q(25, 230), q(80, 130)
			nl := sx + q(3, 12)
			nw, nh := q(10, 20), q(6, 14)
			bl, bw := nl-q(80, 280), 0.0
			bw = nl + nw + q(5, 40) - bl
			bh := q(3, 25)
			if r.chance(1, 5) {
				bh = q(100, 200)
			}
			y1, y2, y3 := th, th+sh, th+sh+nh
			rc = [][4]float64{{tl, 0, tl + tw, y1}, {sx, y1, sx + sw, y2}, {nl, y2, nl + nw, y3}, {bl, y3, bl + bw, y3 + bh}}
			p1 = geom2{tl + tw*float64(r.rangeIn(4, 7))/8, 0}
			p2 = geom2{bl + (nl-bl)*float64(r.rangeIn(1, 7))/8, y3 + bh}
			if r.chance(1, 2) { // mirror the whole picture
				for j := range rc {
					rc[j][0], rc[j][2] = 600-rc[j][2], 600-rc[j][0]
				}
				p1.x, p2.x = 600-p1.x, 600-p2.x
			}
		default: // free stack at drawing scale: 2..5 rectangles, sometimes with overlaps of a few units only
			k := r.rangeIn(2, 5)
			y := 0.0
			l, rr := q(50, 150), 0.0
			rr = l + q(10, 250)
			for j := 0; j < k; j++ {
				h := q(4, 150)
				if j > 0 {
					for {
						var nl, nr float64
						if r.chance(1, 2) { // narrow overlap at one end of the previous range
							ov := q(1, 12)
							if r.chance(1, 2) {
								nl = rr - ov
								nr = nl + q(10, 250)
							} else {
								nr = l + ov
								nl = nr - q(10, 250)
							}
						} else {
							nl = q(0, 300)
							nr = nl + q(10, 250)
						}
						if nr > nl && math.Min(nr, rr) > math.Max(nl, l) {
							l, rr = nl, nr
							break
						}
					}
				}
				rc = append(rc, [4]float64{l, y, rr, y + h})
				y += h
			}
			f, z := rc[0], rc[len(rc)-1]
			p1 = geom2{f[0] + (f[2]-f[0])*float64(r.rangeIn(1, 15))/16, f[1]}
			p2 = geom2{z[0] + (z[2]-z[0])*float64(r.rangeIn(1, 15))/16, z[3]}
		}
		var rects []any
		for _, x := range rc {
			rects = append(rects, []any{fs(x[0]), fs(x[1]), fs(x[2]), fs(x[3])})
		}
		return &Case{ID: id, Op: "fitspline", Arg: map[string]any{"rects": rects, "p1": []any{fs(p1.x), fs(p1.y)}, "p2": []any{fs(p2.x), fs(p2.y)},
			"cls": "A", "timeout_ms": 4000.0}}
	case "solve": // C20 root finder: polynomials built from chosen roots (dyadic, so that the coefficients are exact)
		kind := r.intn(8)
		rt := func() float64 {
			if r.chance(1, 12) { // a root exactly 0: the constant term vanishes
				return 0
			}
			return float64(r.rangeIn(-64, 64)) / 8
		}
		a := float64(r.rangeIn(1, 6))
		if r.chance(1, 2) {
			a = -a
		}
		var co []float64
		var truth []any
		switch kind {
		case 0, 1: // three real roots (distinct or repeated by chance)
			r1, r2, r3 := rt(), rt(), rt()
			if kind == 1 {
				r2 = r1 // repeated root
			}
			co = []float64{-a * r1 * r2 * r3, a * (r1*r2 + r1*r3 + r2*r3), -a * (r1 + r2 + r3), a}
			truth = []any{fs(r1), fs(r2), fs(r3)}
		case 2: // one real root and a complex pair u ± iv
			r1, u, v := rt(), rt(), float64(r.rangeIn(1, 32))/8
			m := u*u + v*v
			co = []float64{-a * r1 * m, a * (m + 2*u*r1), -a * (r1 + 2*u), a}
			truth = []any{fs(r1)}
		case 3: // quadratic: leading coefficient exactly 0
			r1, r2 := rt(), rt()
			if r.chance(1, 4) {
				r2 = r1 // double root: discriminant exactly 0
			}
			co = []float64{a * r1 * r2, -a * (r1 + r2), a, 0}
			truth = []any{fs(r1), fs(r2)}
		case 4: // quadratic without real roots
			u, v := rt(), float64(r.rangeIn(1, 32))/8
			co = []float64{a * (u*u + v*v), -2 * a * u, a, 0}
			truth = []any{}
		case 5: // linear
			r1 := rt()
			co = []float64{-a * r1, a, 0, 0}
			truth = []any{fs(r1)}
		case 7: // three distinct real roots close to each other (1/64 .. 1/8 apart)
			r1 := float64(r.rangeIn(-256, 256)) / 64
			r2 := r1 + float64(r.rangeIn(1, 8))/64
			r3 := r2 + float64(r.rangeIn(1, 8))/64
			co = []float64{-a * r1 * r2 * r3, a * (r1*r2 + r1*r3 + r2*r3), -a * (r1 + r2 + r3), a}
			truth = []any{fs(r1), fs(r2), fs(r3)}
		case 6: // vanishing leading coefficient around the solver's epsilon: a tiny cubic term on top of a quadratic
			r1, r2 := rt(), rt()
			tiny := math.Ldexp(1, -r.rangeIn(18, 30)) // 2^-18 .. 2^-30  (epsilon3 = 1e-7 ~ 2^-23)
			co = []float64{a * r1 * r2, -a * (r1 + r2), a, tiny}
			truth = nil // decided from the polynomial itself by the driver (sign changes)
		}
		cs := make([]any, len(co))
		for j, x := range co {
			cs[j] = fs(x)
		}
		arg := map[string]any{"coeff": cs, "kind": float64(kind)}
		if truth != nil {
			arg["truth"] = truth
		}
		return &Case{ID: id, Op: "solve", Arg: arg}
	case "c01-paths": // DAGs with exponentially many directed paths: any search that forgets what it finished blows up
		var edges [][]string
		nm := func(k int) string { return "p" + strconv.Itoa(k) }
		switch r.intn(3) {
		case 0: // ladder of stacked diamonds
			d := r.rangeIn(28, 44)
			for j := 0; j < d; j++ {
				a, b, c2, e := 3*j, 3*j+1, 3*j+2, 3*j+3
				edges = append(edges, []string{nm(a), nm(b)}, []string{nm(a), nm(c2)}, []string{nm(b), nm(e)}, []string{nm(c2), nm(e)})
			}
		case 1: // chain with doubled (parallel) edges and skip edges
			d := r.rangeIn(40, 70)
			for j := 0; j < d; j++ {
				edges = append(edges, []string{nm(j), nm(j + 1)})
				if j+2 <= d {
					edges = append(edges, []string{nm(j), nm(j + 2)})
				}
			}
		default: // layered complete bipartite blocks of width 2
			d := r.rangeIn(24, 36)
			for j := 0; j < d; j++ {
				for x := 0; x < 2; x++ {
					for y := 0; y < 2; y++ {
						edges = append(edges, []string{nm(2*j + x), nm(2*j + 2 + y)})
					}
				}
			}
		}
		if r.chance(1, 2) { // any edge order
			pm := r.perm(len(edges))
			e2 := make([][]string, len(edges))
			for i2, j := range pm {
				e2[i2] = edges[j]
			}
			edges = e2
		}
		cfg := genCfg(r, cp{p1: []int{0, 1}, p2: []int{0, 1}, p4: []int{0, 1, 2}, p5: []int{0, 1, 2, 4}}, usedNames(edges))
		return &Case{ID: id, Op: "layout", Cfg: cfg, Edges: edges, Arg: map[string]any{"timeout_ms": 20000.0}}
	case "history": // C18
		nruns := r.rangeIn(1, 3)
		var runs []Run
		for j := 0; j < nruns; j++ {
			g.maxN, g.maxM = 6, 8
			edges, names := genGraph(r, g)
			cfg := genCfg(r, cp{p1: []int{0, 1}, p2: []int{0, 1}, p4: []int{0, 1, 2, 3, 4}, bk: allBK, p5: []int{0, 1, 2}}, names)
			runs = append(runs, Run{cfg, edges})
		}
		ncalls := r.rangeIn(2, 7)
		var calls []any
		for j := 0; j < ncalls; j++ {
			kind := []string{"ok", "ok", "ok", "empty", "malformed"}[r.intn(5)]
			calls = append(calls, map[string]any{"kind": kind, "mon": r.chance(3, 5), "run": float64(r.intn(nruns))})
		}
		return &Case{ID: id, Op: "history", Arg: map[string]any{"calls": calls}, Runs: runs}
	case "monitor": // T-fun of the monitor state machine
		n := r.rangeIn(1, 14)
		var ops []any
		for j := 0; j < n; j++ {
			switch r.intn(8) {
			case 0, 1:
				ops = append(ops, []any{"set", float64(r.rangeIn(-1, 3))})
			case 2, 3:
				ops = append(ops, []any{"prefix", float64(r.intn(2))})
			case 4, 5, 6:
				ops = append(ops, []any{"log", "k" + strconv.Itoa(r.intn(3))})
			case 7:
				ops = append(ops, []any{"reset"})
			}
		}
		return &Case{ID: id, Op: "monitor", Arg: map[string]any{"ops": ops}}
	case "concurrent": // C15
		k := []int{2, 4, 8, 16, 32, 64}[r.intn(6)]
		var runs []Run
		wide := r.chance(1, 5) // layers wider than 32 nodes: per-call scratch buffers chosen by size
		big := !wide && r.chance(1, 5) // components of more than 100 nodes: pooled or cached per-call objects chosen by size
		if big {
			k = []int{4, 8}[r.intn(2)]
		}
		if wide && k > 4 { // under the race detector and GOMAXPROCS=1 these are slow: fewer calls, a generous budget
			k = 4
		}
		for j := 0; j < k; j++ {
			g.maxN, g.maxM = 7, 10
			edges, names := genGraph(r, g)
			if wide {
				edges = nil
				w1, w2 := r.rangeIn(33, 40), r.rangeIn(33, 40)
				for b := 0; b < w2; b++ {
					for x := r.rangeIn(1, 3); x > 0; x-- {
						edges = append(edges, []string{"t" + strconv.Itoa(r.intn(w1)), "b" + strconv.Itoa(b)})
					}
				}
				for a := 0; a < w1; a++ {
					edges = append(edges, []string{"t" + strconv.Itoa(a), "b" + strconv.Itoa(r.intn(w2))})
				}
				if r.chance(1, 2) { // a hub: one node with 17..24 out-edges (per-call buffers chosen by degree)
					for b, d := 0, r.rangeIn(17, 24); b < d && b < w2; b++ {
						edges = append(edges, []string{"t0", "b" + strconv.Itoa(b)})
					}
				}
				names = usedNames(edges)
			}
			if big { // a small random graph with a tail of 100..110 nodes hanging off one of its nodes
				at := names[r.intn(len(names))]
				prev := at
				for t := r.rangeIn(100, 110); t > 0; t-- {
					nx := "tail" + strconv.Itoa(t)
					edges = append(edges, []string{prev, nx})
					prev = nx
				}
				names = usedNames(edges)
			}
			cfg := genCfg(r, cp{p1: []int{0, 1}, p2: []int{0, 1}, p4: []int{0, 1, 2, 3, 4}, bk: allBK, p5: []int{0, 1, 2, 4}}, names)
			if (wide || big) && cfg.P4 == 3 {
				cfg.P4 = 1
			}
			if !wide && r.chance(1, 4) { // the randomised greedy breaker on a cyclic input: whatever it draws from must be per call
				g.kind = 0
				g.maxN, g.maxM = 7, 14
				edges, _ = genGraph(r, g)
				cfg.P1 = 2
			}
			runs = append(runs, Run{cfg, edges})
		}
		tmo := 60000.0
		if wide || big {
			tmo = 300000.0
		}
		return &Case{ID: id, Op: "concurrent", Arg: map[string]any{"gomaxprocs": float64([]int{1, 2, 16}[r.intn(3)]), "rounds": 2.0, "timeout_ms": tmo}, Runs: runs}
	}
	return nil
}
